import ISnap.Model.CallAssign
import ISnap.Lemmas.AssignLemmas
import ISnap.Lemmas.CallLemmas
import ISnap.Props.C02
import ISnap.Props.C10
import ISnap.Props.C11b
/-
  C11 (third part) — constructor calls written with keyword arguments (`K(a=…, c=…)` for dataclasses,
  attrs classes, pydantic models, …): keywords are matched by name, a matched value is handed to the
  adapter of its own value (`Assign.assign`, any nesting depth), equal keywords are left untouched,
  a keyword whose field holds its default is deleted, non-default fields without keyword are inserted.

  Model: `ISnap.CallAssign` (`assignCall F kw fields`), on top of `ISnap.Assign`.
  Hypotheses used (always stated explicitly, only where needed):
    * keyword names pairwise distinct      `(kw.map (·.1)).Nodup`
    * field names pairwise distinct        `(fields.map (·.1)).Nodup`
    * keyword expressions                  `Managed e`, `WfExpr e`
    * field values                         `ValOk v`, `WfVal v`

  Auxiliary notions (`ISnap.Lemmas.CallLemmas`):
    * `keptKw F kw fields`  the old keywords that survive (matched ones rewritten by `Assign.assign`), call order
    * `newKw kw fields`     the keywords written for non-default fields that had no keyword, field order
    * `unmLeavesKw l`       all unmanaged leaves of the keyword values, source order
-/
namespace ISnap.CallAssign
open ISnap ISnap.Assign List

/-! ### shape of the result -/

theorem call_kw_nofix (F : Flags) (kw : List (Nat × Expr)) (fields : List Field)
    (hF : F.fix = false) : (assignCall F kw fields).kw = keptKw F kw fields := by
  simp [assignCall, hF, oldKeywords_snd, keptKw]

theorem call_kw_fix (F : Flags) (kw : List (Nat × Expr)) (fields : List Field)
    (hF : F.fix = true) : (assignCall F kw fields).kw =
      weave (kw.map (oldOne F fields)) (inserts (kw.map (·.1)) fields 0 []) 0 := by
  simp [assignCall, hF, oldKeywords_snd]

/-- with `fix` approved the result consists of exactly the surviving old keywords and the keywords
    of the new fields (as a multiset; the old ones keep their relative order, see `ulKw_weave`) -/
theorem call_kw_perm (F : Flags) (kw : List (Nat × Expr)) (fields : List Field)
    (hF : F.fix = true) :
    (assignCall F kw fields).kw.Perm (keptKw F kw fields ++ newKw kw fields) := by
  rw [call_kw_fix F kw fields hF]
  have := weave_perm (inserts (kw.map (·.1)) fields 0 []) (kw.map (oldOne F fields)) 0
  rwa [tailIns_zero, allIns_eq] at this

/-- every surviving old keyword is in the result, whatever is approved -/
theorem kept_mem_call (F : Flags) (kw : List (Nat × Expr)) (fields : List Field) (q : Nat × Expr)
    (h : q ∈ keptKw F kw fields) : q ∈ (assignCall F kw fields).kw := by
  cases hF : F.fix with
  | false => rw [call_kw_nofix F kw fields hF]; exact h
  | true => exact (call_kw_perm F kw fields hF).mem_iff.2 (mem_append_left _ h)

/-- every keyword of the result is a surviving old keyword or (only with `fix`) a new one -/
theorem mem_call_iff (F : Flags) (kw : List (Nat × Expr)) (fields : List Field) (q : Nat × Expr) :
    q ∈ (assignCall F kw fields).kw ↔
      q ∈ keptKw F kw fields ∨ (F.fix = true ∧ q ∈ newKw kw fields) := by
  cases hF : F.fix with
  | false => rw [call_kw_nofix F kw fields hF]; simp
  | true => rw [(call_kw_perm F kw fields hF).mem_iff, mem_append]; simp

/-! ### 1. matched by key, at any nesting depth -/

/-- a keyword whose field is present and not default is handled by the adapter of its own value —
    whatever else happens in the call (other keywords fixed, deleted, inserted) and whatever is
    approved.  (Distinct names are not needed: the value is looked up by the keyword's own name.) -/
theorem call_matched_by_key (F : Flags) (kw : List (Nat × Expr)) (fields : List Field)
    (name : Nat) (e : Expr) (v : Val) (hmem : (name, e) ∈ kw)
    (hl : lookupF name fields = some (v, false)) :
    (name, (assign F e v).expr) ∈ (assignCall F kw fields).kw := by
  apply kept_mem_call
  rw [mem_keptKw]
  exact ⟨(name, e), hmem, by simp [oldOne, hl]⟩

/-- conversely every keyword of the result comes from an old keyword of the same name — rewritten by
    the adapter of its value if the field is a non-default one, literally kept otherwise — or is the
    canonical spelling of a new non-default field -/
theorem call_kw_origin (F : Flags) (kw : List (Nat × Expr)) (fields : List Field)
    (name : Nat) (e' : Expr) (h : (name, e') ∈ (assignCall F kw fields).kw) :
    (∃ e v, (name, e) ∈ kw ∧ lookupF name fields = some (v, false) ∧ e' = (assign F e v).expr) ∨
    ((name, e') ∈ kw ∧ ∀ v, lookupF name fields ≠ some (v, false)) ∨
    (∃ v, F.fix = true ∧ e' = canon v ∧ (name, v, false) ∈ fields ∧ name ∉ kw.map (·.1)) := by
  rcases (mem_call_iff F kw fields _).1 h with h | ⟨hF, h⟩
  · obtain ⟨⟨n, e⟩, hp, ho⟩ := mem_keptKw.1 h
    unfold oldOne at ho
    split at ho
    · next v hl =>
      simp only [Option.some.injEq, Prod.mk.injEq] at ho
      obtain ⟨rfl, rfl⟩ := ho
      exact Or.inl ⟨e, v, hp, hl, rfl⟩
    · next v hl =>
      have := (ite_none_some ho).2
      simp only [Prod.mk.injEq] at this
      obtain ⟨rfl, rfl⟩ := this
      exact Or.inr (Or.inl ⟨hp, fun w hw => by simp [hw] at hl⟩)
    · next hl =>
      have := (ite_none_some ho).2
      simp only [Prod.mk.injEq] at this
      obtain ⟨rfl, rfl⟩ := this
      exact Or.inr (Or.inl ⟨hp, fun w hw => by simp [hw] at hl⟩)
  · obtain ⟨v, h1, h2, h3⟩ := mem_newKw.1 h
    refine Or.inr (Or.inr ⟨v, hF, h1, h2, ?_⟩)
    simpa using h3

/-! ### 7. nothing approved, nothing changed -/

theorem oldOne_empty (fields : List Field) (p : Nat × Expr) :
    oldOne Flags.empty fields p = some p := by
  unfold oldOne
  split
  · next v _ =>
    have : (assign Flags.empty p.2 v).expr = p.2 :=
      nothing_approved_nothing_changed Flags.empty p.2 v (by simp [Flags.empty]) (by simp [Flags.empty])
    rw [this]
  · split <;> simp [Flags.empty, Flags.has]
  · simp [Flags.empty]

theorem filterMap_id_map_some {α : Type} (l : List α) : (l.map some).filterMap id = l := by
  induction l with
  | nil => rfl
  | cons a l ih => simp

theorem call_nothing_approved (kw : List (Nat × Expr)) (fields : List Field) :
    (assignCall Flags.empty kw fields).kw = kw := by
  rw [call_kw_nofix _ _ _ rfl, keptKw]
  have : kw.map (oldOne Flags.empty fields) = kw.map some :=
    map_congr_left (fun p _ => oldOne_empty fields p)
  rw [this, filterMap_id_map_some]

/-! ### 6. / 8. the reported categories -/

theorem call_cats (F : Flags) (kw : List (Nat × Expr)) (fields : List Field) :
    (assignCall F kw fields).cats =
      (kw.foldr (fun p acc => (oldOneCats F fields p).union acc) Flags.empty).union
        (if (inserts (kw.map (·.1)) fields 0 []).any (fun p => !p.2.isEmpty)
          then Flags.single .fix else Flags.empty) := by
  simp only [assignCall, oldKeywords_fst]

theorem oldOneCats_indep (F : Flags) (fields : List Field) :
    oldOneCats F fields = oldOneCats Flags.empty fields := by
  funext p
  unfold oldOneCats
  split
  · exact (indep_gen F Flags.empty _ _).1
  · rfl
  · rfl

/-- what is reported does not depend on what is approved -/
theorem call_cats_flags_indep (F : Flags) (kw : List (Nat × Expr)) (fields : List Field) :
    (assignCall F kw fields).cats = (assignCall Flags.empty kw fields).cats := by
  rw [call_cats, call_cats, oldOneCats_indep]

/-- … nor do the merged values -/
theorem call_merged_flags_indep (F : Flags) (kw : List (Nat × Expr)) (fields : List Field) :
    (assignCall F kw fields).merged = (assignCall Flags.empty kw fields).merged := by
  simp only [assignCall]
  apply map_congr_left
  intro f _
  split
  · rw [(indep_gen F Flags.empty _ _).2]
  · rfl

theorem union_create (a b : Flags) : (a.union b).create = (a.create || b.create) := rfl
theorem union_trim (a b : Flags) : (a.union b).trim = (a.trim || b.trim) := rfl
theorem union_fix (a b : Flags) : (a.union b).fix = (a.fix || b.fix) := rfl
theorem union_update (a b : Flags) : (a.union b).update = (a.update || b.update) := rfl

theorem oldOneCats_create_trim (F : Flags) (fields : List Field) (p : Nat × Expr) :
    (oldOneCats F fields p).create = false ∧ (oldOneCats F fields p).trim = false := by
  unfold oldOneCats
  split
  · exact cats_create_trim F _ _
  · split <;> exact ⟨rfl, rfl⟩
  · exact ⟨rfl, rfl⟩

/-- comparing a call never reports `create` or `trim` -/
theorem call_no_create_trim (F : Flags) (kw : List (Nat × Expr)) (fields : List Field) :
    (assignCall F kw fields).cats.create = false ∧ (assignCall F kw fields).cats.trim = false := by
  rw [call_cats, union_create, union_trim]
  have h1 : (kw.foldr (fun p acc => (oldOneCats F fields p).union acc) Flags.empty).create = false ∧
      (kw.foldr (fun p acc => (oldOneCats F fields p).union acc) Flags.empty).trim = false := by
    induction kw with
    | nil => exact ⟨rfl, rfl⟩
    | cons p rest ih =>
      have := oldOneCats_create_trim F fields p
      simp only [foldr_cons, union_create, union_trim, this.1, this.2, ih.1, ih.2, Bool.or_self,
        and_self]
  rw [h1.1, h1.2]
  split <;> exact ⟨rfl, rfl⟩

/-! ### 3. an unchanged keyword keeps its text -/

/-- a matched keyword whose value is unchanged stays literally the same (`update` not approved) —
    even when other keywords of the call are fixed, deleted or inserted -/
theorem call_kept_keyword_text (F : Flags) (kw : List (Nat × Expr)) (fields : List Field)
    (name : Nat) (e : Expr) (v : Val) (hu : F.update = false) (hmem : (name, e) ∈ kw)
    (hl : lookupF name fields = some (v, false)) (heq : pyEq (eval e) v = true)
    (he : Managed e) (hwe : WfExpr e) (hv : ValOk v) (hwv : WfVal v) :
    (name, e) ∈ (assignCall F kw fields).kw := by
  have h := call_matched_by_key F kw fields name e v hmem hl
  have : (assign F e v).expr = e := equal_kept F e v hu he heq hv hwe hwv
  rwa [this] at h

/-- with distinct keyword names it is the only keyword of that name -/
theorem call_names_nodup (F : Flags) (kw : List (Nat × Expr)) (fields : List Field)
    (hkn : (kw.map (·.1)).Nodup) (hfn : (fields.map (·.1)).Nodup) :
    ((assignCall F kw fields).kw.map (·.1)).Nodup := by
  have hk := (keptKw_names_sublist F kw fields).nodup hkn
  cases hF : F.fix with
  | false => rw [call_kw_nofix F kw fields hF]; exact hk
  | true =>
    refine ((call_kw_perm F kw fields hF).map (·.1)).nodup_iff.2 ?_
    rw [map_append, nodup_append]
    refine ⟨hk, (newKw_names_sublist kw fields).nodup hfn, ?_⟩
    intro a ha b hb hab
    subst hab
    have h1 := (keptKw_names_sublist F kw fields).subset ha
    obtain ⟨q, hq, rfl⟩ := mem_map.1 hb
    obtain ⟨v, _, _, h3⟩ := mem_newKw.1 hq
    simp only [contains_eq_mem, decide_eq_false_iff_not] at h3
    exact h3 h1

/-! ### 2. an equal call is left untouched -/

theorem newFields_nil {kw : List (Nat × Expr)} {fields : List Field}
    (hf : ∀ f ∈ fields, f.2.2 = false → f.1 ∈ kw.map (·.1)) :
    newFields (kw.map (·.1)) fields = [] := by
  rw [newFields, map_eq_nil_iff, filter_eq_nil_iff]
  intro f hm
  cases hd : f.2.2 with
  | true => simp
  | false =>
    have := hf f hm hd
    simp only [Bool.not_false, Bool.true_and, Bool.not_eq_eq_eq_not, Bool.not_true, contains_eq_mem,
      decide_eq_false_iff_not, Decidable.not_not]
    exact this

theorem ins_empty {kw : List (Nat × Expr)} {fields : List Field}
    (hf : ∀ f ∈ fields, f.2.2 = false → f.1 ∈ kw.map (·.1)) :
    ∀ p ∈ inserts (kw.map (·.1)) fields 0 [], p.2 = [] := by
  have := inserts_flat (kw.map (·.1)) fields 0 []
  rw [newFields_nil hf, nil_append, flatMap_eq_nil_iff] at this
  exact this

/-- if nothing has to be inserted, the result is the list of surviving keywords, in call order -/
theorem call_kw_noins (F : Flags) (kw : List (Nat × Expr)) (fields : List Field)
    (hf : ∀ f ∈ fields, f.2.2 = false → f.1 ∈ kw.map (·.1)) :
    (assignCall F kw fields).kw = keptKw F kw fields := by
  cases hF : F.fix with
  | false => exact call_kw_nofix F kw fields hF
  | true => rw [call_kw_fix F kw fields hF, weave_noins (ins_empty hf), keptKw]

/-- every keyword has a non-default field of equal value and every non-default field has a keyword:
    the call is left untouched at every depth, whatever else is approved besides `update` -/
theorem call_equal_kept (F : Flags) (kw : List (Nat × Expr)) (fields : List Field)
    (hu : F.update = false)
    (hk : ∀ name e, (name, e) ∈ kw → ∃ v, lookupF name fields = some (v, false) ∧
      pyEq (eval e) v = true ∧ Managed e ∧ WfExpr e ∧ ValOk v ∧ WfVal v)
    (hf : ∀ f ∈ fields, f.2.2 = false → f.1 ∈ kw.map (·.1)) :
    (assignCall F kw fields).kw = kw := by
  rw [call_kw_noins F kw fields hf, keptKw]
  have : kw.map (oldOne F fields) = kw.map some := by
    apply map_congr_left
    rintro ⟨name, e⟩ hp
    obtain ⟨v, hl, heq, he, hwe, hv, hwv⟩ := hk name e hp
    have : (assign F e v).expr = e := equal_kept F e v hu he heq hv hwe hwv
    simp [oldOne, hl, this]
  rw [this, filterMap_id_map_some]

/-- … and no `fix` is reported for it -/
theorem call_equal_no_fix (F : Flags) (kw : List (Nat × Expr)) (fields : List Field)
    (hk : ∀ name e, (name, e) ∈ kw → ∃ v, lookupF name fields = some (v, false) ∧
      pyEq (eval e) v = true ∧ Managed e ∧ WfExpr e ∧ ValOk v ∧ WfVal v)
    (hf : ∀ f ∈ fields, f.2.2 = false → f.1 ∈ kw.map (·.1)) :
    (assignCall F kw fields).cats.fix = false := by
  rw [call_cats, union_fix]
  have h2 : (inserts (kw.map (·.1)) fields 0 []).any (fun p => !p.2.isEmpty) = false := by
    rw [any_eq_false]
    intro p hp
    simp [ins_empty hf p hp]
  rw [h2]
  have h1 : ∀ l : List (Nat × Expr), (∀ p ∈ l, p ∈ kw) →
      (l.foldr (fun p acc => (oldOneCats F fields p).union acc) Flags.empty).fix = false := by
    intro l
    induction l with
    | nil => intro _; rfl
    | cons p rest ih =>
      intro hl
      obtain ⟨name, e⟩ := p
      obtain ⟨v, hl', heq, he, hwe, hv, hwv⟩ := hk name e (hl _ mem_cons_self)
      have h3 : (oldOneCats F fields (name, e)).fix = false := by
        simp only [oldOneCats, hl']
        exact nofix_of_eq F e (ge_of he hwe) v (gv_of hv hwv) heq
      rw [foldr_cons, union_fix, h3, ih (fun p hp => hl p (mem_cons_of_mem _ hp))]
      rfl
  rw [h1 kw (fun _ h => h)]
  rfl

/-! ### 5. unmanaged parts are never rewritten -/

theorem ulKw_cons (p : Nat × Expr) (l : List (Nat × Expr)) :
    unmLeavesKw (p :: l) = unmLeaves p.2 ++ unmLeavesKw l := by simp [unmLeavesKw]

theorem ulKw_optL {o : Option (Nat × Expr)} {L : List Expr}
    (h : ∀ q, o = some q → (unmLeaves q.2).Sublist L) : (unmLeavesKw (optL o)).Sublist L := by
  cases o with
  | none => simp [optL, unmLeavesKw]
  | some q => simpa [optL, unmLeavesKw] using h q rfl

theorem ulKw_kept (F : Flags) (kw : List (Nat × Expr)) (fields : List Field)
    (hfv : ∀ f ∈ fields, ValOk f.2.1) :
    (unmLeavesKw (keptKw F kw fields)).Sublist (unmLeavesKw kw) := by
  induction kw with
  | nil => simp [keptKw, unmLeavesKw]
  | cons p rest ih =>
    simp only [keptKw, map_cons] at ih ⊢
    rw [filterMap_id_cons, ulKw_append, ulKw_cons]
    refine Sublist.append ?_ ih
    apply ulKw_optL
    intro q hq
    unfold oldOne at hq
    split at hq
    · next v hl =>
      simp only [Option.some.injEq] at hq
      subst hq
      exact ul_run F p.2 v (hfv _ (lookupF_mem hl))
    · rw [← (ite_none_some hq).2]; exact Sublist.refl _
    · rw [← (ite_none_some hq).2]; exact Sublist.refl _

/-- no unmanaged node (`Is(..)`, dirty-equals, inner `snapshot()`, f-string) inside a keyword value is
    altered, created or reordered by the comparison of a call, whatever is approved; it can only
    disappear together with the element or keyword that held it.  `ValOk` of the field values is needed
    exactly as in `Assign.unmanaged_untouched`. -/
theorem call_unmanaged_untouched (F : Flags) (kw : List (Nat × Expr)) (fields : List Field)
    (hfv : ∀ f ∈ fields, ValOk f.2.1) :
    (unmLeavesKw (assignCall F kw fields).kw).Sublist (unmLeavesKw kw) := by
  cases hF : F.fix with
  | false => rw [call_kw_nofix F kw fields hF]; exact ulKw_kept F kw fields hfv
  | true =>
    rw [call_kw_fix F kw fields hF, ulKw_weave]
    · exact ulKw_kept F kw fields hfv
    · intro p hp kv hkv
      have := (mem_newFields.1 (mem_ins_group hp hkv)).1
      exact hfv _ this

/-! ### 4. approving `fix` repairs the call -/

/-- `fix` approved: every non-default field has exactly one keyword in the result, and that keyword
    evaluates to the field's value.
    * distinct field names are needed for the value (a keyword is compared with the first field of its name);
    * distinct keyword names are needed for uniqueness only (see `call_fix_repairs_exists`). -/
theorem call_fix_repairs_exists (F : Flags) (kw : List (Nat × Expr)) (fields : List Field)
    (hF : F.fix = true) (hfn : (fields.map (·.1)).Nodup)
    (hkw : ∀ p ∈ kw, Managed p.2 ∧ WfExpr p.2) (hfv : ∀ f ∈ fields, ValOk f.2.1 ∧ WfVal f.2.1)
    (name : Nat) (v : Val) (hmem : (name, v, false) ∈ fields) :
    ∃ e', (name, e') ∈ (assignCall F kw fields).kw ∧ pyEq (eval e') v = true := by
  have hv := hfv _ hmem
  by_cases hn : name ∈ kw.map (·.1)
  · obtain ⟨⟨n, e⟩, hp, rfl⟩ := mem_map.1 hn
    have hl := lookupF_of_mem hfn hmem
    refine ⟨_, call_matched_by_key F kw fields n e v hp hl, ?_⟩
    exact fix_repairs F e v hF (hkw _ hp).1 hv.1 (hkw _ hp).2 hv.2
  · refine ⟨canon v, ?_, ?_⟩
    · rw [mem_call_iff]
      refine Or.inr ⟨hF, mem_newKw.2 ⟨v, rfl, hmem, ?_⟩⟩
      simpa using hn
    · rw [eval_canon_any]
      exact pyEq_refl v (gv_of hv.1 hv.2)

theorem call_fix_repairs (F : Flags) (kw : List (Nat × Expr)) (fields : List Field)
    (hF : F.fix = true) (hkn : (kw.map (·.1)).Nodup) (hfn : (fields.map (·.1)).Nodup)
    (hkw : ∀ p ∈ kw, Managed p.2 ∧ WfExpr p.2) (hfv : ∀ f ∈ fields, ValOk f.2.1 ∧ WfVal f.2.1)
    (name : Nat) (v : Val) (hmem : (name, v, false) ∈ fields) :
    ∃ e', (name, e') ∈ (assignCall F kw fields).kw ∧ pyEq (eval e') v = true ∧
      ∀ e'', (name, e'') ∈ (assignCall F kw fields).kw → e'' = e' := by
  obtain ⟨e', h1, h2⟩ := call_fix_repairs_exists F kw fields hF hfn hkw hfv name v hmem
  exact ⟨e', h1, h2, fun e'' h => pair_unique (call_names_nodup F kw fields hkn hfn) h h1⟩

/-- `fix` and `update` approved: no keyword of the result names a field that is default or absent
    (deleting an unchanged default-valued keyword is an `update`, see the example below) -/
theorem call_fix_update_no_stale (F : Flags) (kw : List (Nat × Expr)) (fields : List Field)
    (hF : F.fix = true) (hU : F.update = true) (name : Nat) (e' : Expr)
    (h : (name, e') ∈ (assignCall F kw fields).kw) : ∃ v, (name, v, false) ∈ fields := by
  have hhas : ∀ c : Bool, F.has (if c = true then Cat.update else Cat.fix) = true := by
    intro c; cases c <;> simp [Flags.has, hF, hU]
  rcases (mem_call_iff F kw fields _).1 h with h | ⟨_, h⟩
  · obtain ⟨⟨n, e⟩, hp, ho⟩ := mem_keptKw.1 h
    unfold oldOne at ho
    split at ho
    · next v hl =>
      simp only [Option.some.injEq, Prod.mk.injEq] at ho
      obtain ⟨rfl, _⟩ := ho
      exact ⟨v, lookupF_mem hl⟩
    · exact absurd (hhas _) (ite_none_some ho).1
    · exact absurd hF (ite_none_some ho).1
  · obtain ⟨v, _, hm, _⟩ := mem_newKw.1 h
    exact ⟨v, hm⟩

/-- only `fix` approved: a keyword of the result that names no non-default field is an old keyword of
    a default-valued field whose value did not change, with its old text (its deletion is an `update`) -/
theorem call_fix_stale_unchanged (F : Flags) (kw : List (Nat × Expr)) (fields : List Field)
    (hF : F.fix = true) (name : Nat) (e' : Expr)
    (h : (name, e') ∈ (assignCall F kw fields).kw) :
    (∃ v, (name, v, false) ∈ fields) ∨
    (F.update = false ∧ (name, e') ∈ kw ∧
      ∃ v, lookupF name fields = some (v, true) ∧ pyEq (eval e') v = true) := by
  rcases (mem_call_iff F kw fields _).1 h with h | ⟨_, h⟩
  · obtain ⟨⟨n, e⟩, hp, ho⟩ := mem_keptKw.1 h
    unfold oldOne at ho
    split at ho
    · next v hl =>
      simp only [Option.some.injEq, Prod.mk.injEq] at ho
      obtain ⟨rfl, _⟩ := ho
      exact Or.inl ⟨v, lookupF_mem hl⟩
    · next v hl =>
      obtain ⟨h1, h2⟩ := ite_none_some ho
      simp only [Prod.mk.injEq] at h2
      obtain ⟨rfl, rfl⟩ := h2
      cases hc : pyEq (eval e) v with
      | false => simp [hc, Flags.has, hF] at h1
      | true =>
        simp only [hc, ↓reduceIte, Flags.has, Bool.not_eq_true] at h1
        exact Or.inr ⟨h1, hp, v, hl, hc⟩
    · exact absurd hF (ite_none_some ho).1
  · obtain ⟨v, _, hm, _⟩ := mem_newKw.1 h
    exact Or.inl ⟨v, hm⟩

/-! ### non-vacuity -/

section examples
open Ex

/-- `K(b=1, c=[5], d=7, z=0)` (names as numbers 1, 2, 3, 9) -/
def kwA : List (Nat × Expr) :=
  [ (1, .leaf 1 true (.atom (.int 1))), (2, .seq false [.leaf 2 true (.atom (.int 5))]),
    (3, .leaf 3 true (.atom (.int 7))), (9, .leaf 4 true (.atom (.int 0))) ]
/-- the new object: `a=4` (new), `b=1` (equal), `c=[5, 6]` (changed), `d=7` (now the default),
    `e=8` (new), no field `z` any more -/
def fieldsA : List Field :=
  [ (0, .atom (.int 4), false), (1, .atom (.int 1), false),
    (2, .list [.atom (.int 5), .atom (.int 6)], false), (3, .atom (.int 7), true),
    (4, .atom (.int 8), false) ]

example : (kwA.map (·.1)).Nodup ∧ (fieldsA.map (·.1)).Nodup := by decide
example : (∀ p ∈ kwA, Managed p.2 ∧ WfExpr p.2) ∧ (∀ f ∈ fieldsA, ValOk f.2.1 ∧ WfVal f.2.1) := by
  decide

/-- keyword `c` is handled by the list adapter of its own value, whatever is approved -/
example (F : Flags) : (2, (assign F (.seq false [.leaf 2 true (.atom (.int 5))])
    (.list [.atom (.int 5), .atom (.int 6)])).expr) ∈ (assignCall F kwA fieldsA).kw :=
  call_matched_by_key F kwA fieldsA 2 _ _ (by simp [kwA]) rfl

/-- keyword `b` keeps its text although `a`, `e` are inserted, `c` is fixed and `z` is deleted -/
example : (1, .leaf 1 true (.atom (.int 1))) ∈ (assignCall fixOnly kwA fieldsA).kw :=
  call_kept_keyword_text fixOnly kwA fieldsA 1 _ (.atom (.int 1)) rfl (by simp [kwA]) rfl
    (by decide) (by decide) (by decide) (by decide) (by decide)

/-- `fix`: the field `e` gets exactly one keyword, and it evaluates to 8 -/
example : ∃ e', (4, e') ∈ (assignCall fixOnly kwA fieldsA).kw ∧
    pyEq (eval e') (.atom (.int 8)) = true ∧
    ∀ e'', (4, e'') ∈ (assignCall fixOnly kwA fieldsA).kw → e'' = e' :=
  call_fix_repairs fixOnly kwA fieldsA rfl (by decide) (by decide) (by decide) (by decide) 4 _
    (by simp [fieldsA])

example : (assignCall Flags.all kwA fieldsA).kw = kwA → False := by
  intro h
  have := call_fix_update_no_stale Flags.all kwA fieldsA rfl rfl 9 (.leaf 4 true (.atom (.int 0)))
    (by rw [h]; simp [kwA])
  revert this; simp [fieldsA]

/-- a call computed completely (leaf values): `K(b=1, d=7, z=0)` against `a=4, b=2, d=7 (default)`:
    `a` is inserted in front of `b`, `b` is fixed, `z` deleted (fix); `d` stays without `update` … -/
def kwB : List (Nat × Expr) :=
  [ (1, .leaf 1 true (.atom (.int 1))), (3, .leaf 3 true (.atom (.int 7))),
    (9, .leaf 4 true (.atom (.int 0))) ]
def fieldsB : List Field :=
  [ (0, .atom (.int 4), false), (1, .atom (.int 2), false), (3, .atom (.int 7), true) ]

example : (assignCall fixOnly kwB fieldsB).kw =
    [ (0, .leaf 0 true (.atom (.int 4))), (1, .leaf 0 true (.atom (.int 2))),
      (3, .leaf 3 true (.atom (.int 7))) ] := by
  simp [assignCall, oldKeywords, lookupF, kwB, fieldsB, inserts, weave, insAt, fixOnly,
    assign_leaf, leafOut, pyEq, Atom.pyEq, Atom.num?, canon, Flags.has, eval]
/-- … and goes with it: `update` is needed in `call_fix_update_no_stale` -/
example : (assignCall Flags.all kwB fieldsB).kw =
    [ (0, .leaf 0 true (.atom (.int 4))), (1, .leaf 0 true (.atom (.int 2))) ] := by
  simp [assignCall, oldKeywords, lookupF, kwB, fieldsB, inserts, weave, insAt, Flags.all,
    assign_leaf, leafOut, pyEq, Atom.pyEq, Atom.num?, canon, Flags.has, eval]
example : (assignCall Flags.all kwB fieldsB).cats = ⟨false, true, false, true⟩ := by
  simp [assignCall, oldKeywords, lookupF, kwB, fieldsB, inserts, Flags.all,
    assign_leaf, leafOut, pyEq, Atom.pyEq, Atom.num?, Flags.has, eval, Flags.union, Flags.single,
    Flags.empty]

/-- an equal call: `K(b=True, c=[5])` against `b=1, c=[5]`, `d` default — untouched with `fix` approved -/
example : (assignCall fixOnly
      [(1, .leaf 1 false (.atom (.bool true))), (2, .seq false [.leaf 2 true (.atom (.int 5))])]
      [(1, .atom (.int 1), false), (2, .list [.atom (.int 5)], false), (3, .atom (.int 7), true)]).kw
    = [(1, .leaf 1 false (.atom (.bool true))), (2, .seq false [.leaf 2 true (.atom (.int 5))])] := by
  apply call_equal_kept _ _ _ rfl
  · intro name e h
    simp only [mem_cons, Prod.mk.injEq, not_mem_nil, or_false] at h
    rcases h with ⟨rfl, rfl⟩ | ⟨rfl, rfl⟩
    · exact ⟨.atom (.int 1), rfl, by decide⟩
    · exact ⟨.list [.atom (.int 5)], rfl, by decide⟩
  · decide

/-- unmanaged parts: `K(b=Is(x), c=[f"…", 1])` — both nodes survive any run -/
example (F : Flags) (fields : List Field) (h : ∀ f ∈ fields, ValOk f.2.1) :
    (unmLeavesKw (assignCall F
      [(1, .unm 7 (.unmIs 0 (.atom (.int 3)))), (2, .seq false [.fstr 9 (.atom (.str [120]))])]
      fields).kw).Sublist [.unm 7 (.unmIs 0 (.atom (.int 3))), .fstr 9 (.atom (.str [120]))] :=
  call_unmanaged_untouched F _ fields h

/-- distinct field names are needed in `call_fix_repairs`: a keyword is compared with the first field
    of its name -/
example : (assignCall fixOnly [(1, .leaf 1 true (.atom (.int 1)))]
      [(1, .atom (.int 1), false), (1, .atom (.int 2), false)]).kw
    = [(1, .leaf 1 true (.atom (.int 1)))] := by
  simp [assignCall, oldKeywords, lookupF, inserts, weave, insAt, fixOnly,
    assign_leaf, leafOut, pyEq, Atom.pyEq, Atom.num?, same]

end examples

end ISnap.CallAssign
