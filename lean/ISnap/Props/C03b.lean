import ISnap.Lemmas.SeqEditLemmas
/-
  C03 / C11 / C02 at the text level — deleting and inserting elements of a display
  (`generic_sequence_update`, Model/SeqEdit.lean), for every number of elements, every pattern of deletions,
  every set of insertions and any trivia (blanks, line breaks, comments, trailing comma) between the elements:

    * `seqUpdate_is_display`    the text between the braces is a display again (elements separated by exactly
                                one comma, optional trailing comma) and holds exactly the inserted and the kept
                                elements, in order — so the file is still valid Python and evaluates to the value
                                that was computed;
    * `seqUpdate_tuple_comma`   a tuple that ends up with one element ends with a comma (`(x,)`, not `(x)`);
                                needs `insertsAnchored` (the positions the adapters produce), and
                                `tuple_comma_needs_anchor` shows the hypothesis is necessary;
    * `seqUpdate_nothing_to_do` with nothing deleted and nothing inserted (and at least two elements) the text
                                is returned character for character;
    * `seqUpdate_prefix_kept`   everything in front of the first deleted element / first insertion — elements
                                *and* the trivia between them (comments!) — survives verbatim;
    * `original_is_display`     sanity of `wfGaps`: the original text parses to the old elements.
-/
namespace ISnap.SeqEdit

theorem original_is_display (gap0 : List Tok) (es : List Entry) (hwf : wfGaps gap0 es = true) :
    ∃ tc, parse (original gap0 es) = some (es.map (·.key), tc) :=
  original_parse gap0 es hwf

theorem seqUpdate_is_display (isTuple : Bool) (gap0 : List Tok) (es : List Entry) (ins : List (List Nat))
    (hwf : wfGaps gap0 es = true) :
    ∃ tc, parse (seqUpdate isTuple gap0 es ins) = some (expected es ins, tc) :=
  seqUpdate_parse isTuple gap0 es ins hwf

theorem seqUpdate_tuple_comma (gap0 : List Tok) (es : List Entry) (ins : List (List Nat))
    (hwf : wfGaps gap0 es = true) (ha : insertsAnchored ins 0 es = true)
    (h1 : (expected es ins).length = 1) :
    parse (seqUpdate true gap0 es ins) = some (expected es ins, true) :=
  seqUpdate_tuple_single gap0 es ins hwf ha h1

/-- without the anchoring hypothesis the claim is false: `(a,)`, delete `a`, insert `x` at position 0 → `(x)` -/
theorem tuple_comma_needs_anchor :
    ∃ gap0 es ins, wfGaps gap0 es = true ∧ (expected es ins).length = 1 ∧
      parse (seqUpdate true gap0 es ins) = some (expected es ins, false) :=
  ⟨[], [{ key := 0, keep := false, gapAfter := [.comma] }], [[7]], by decide, by decide, by decide⟩

theorem seqUpdate_nothing_to_do (isTuple : Bool) (gap0 : List Tok) (es : List Entry) (ins : List (List Nat))
    (hk : es.all (·.keep) = true) (hi : ins.all (·.isEmpty) = true) (hn : 2 ≤ es.length) :
    seqUpdate isTuple gap0 es ins = original gap0 es :=
  seqUpdate_noop isTuple gap0 es ins hk hi hn

theorem seqUpdate_prefix_kept (isTuple : Bool) (gap0 : List Tok) (es : List Entry) (ins : List (List Nat))
    (k : Nat) (hk : (es.take k).all (·.keep) = true)
    (hi : ∀ i, i < k → (ins.getD i []).isEmpty = true) :
    ∃ rest, seqUpdate isTuple gap0 es ins = prefixText gap0 (es.take k) ++ rest :=
  seqUpdate_prefix isTuple gap0 es ins k hk hi

/-! ### non-vacuity: `[a, # c⏎ b, c,]`, delete `b`, insert `x y` in front of `c` and `z` at the end -/

section examples

def exGap0 : List Tok := [.ws 1]
def exEs : List Entry :=
  [{ key := 0, keep := true, gapAfter := [.comma, .ws 2] },
   { key := 1, keep := false, gapAfter := [.ws 3, .comma, .ws 1] },
   { key := 2, keep := true, gapAfter := [.comma] }]
def exIns : List (List Nat) := [[], [], [10, 11], [12]]

example : wfGaps exGap0 exEs = true := by decide
example : insertsAnchored exIns 0 exEs = true := by decide
example : expected exEs exIns = [0, 10, 11, 2, 12] := by decide
example : seqUpdate false exGap0 exEs exIns
    = [.ws 1, .elem 0, .comma, .ws 0, .elem 10, .comma, .ws 0, .elem 11, .comma, .ws 0, .elem 2,
       .comma, .ws 0, .elem 12] := by decide
example : parse (seqUpdate false exGap0 exEs exIns) = some ([0, 10, 11, 2, 12], false) := by decide
/-- a tuple `(a, b)` whose second element is deleted becomes `(a,)` -/
example : seqUpdate true [] [{ key := 0, keep := true, gapAfter := [.comma, .ws 1] },
      { key := 1, keep := false, gapAfter := [] }] [] = [.elem 0, .comma] := by decide

end examples

end ISnap.SeqEdit
