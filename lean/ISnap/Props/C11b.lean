import ISnap.Lemmas.AssignLemmas
/-
  C11 (second part) — elements that compare equal are kept: if the observed value equals the value of
  the argument and `update` is not approved, the argument expression is untouched at every depth
  (equal elements form the common prefix of `align`, so the script is all `m`;
  `Align.align_prefix_suffix` via `script_all_m`).
-/
namespace ISnap.Assign
open ISnap

theorem equal_kept (F : Flags) (e : Expr) (n : Val) (hu : F.update = false) (he : Managed e)
    (heq : pyEq (eval e) n = true) (hn : ValOk n) (hwe : WfExpr e) (hwn : WfVal n) :
    run F e n = e :=
  equal_kept_gen F hu e (ge_of he hwe) n (gv_of hn hwn) heq

/-- more generally (no assumption on `e` or `n` at all): a run that approves none of the categories
    reported for the comparison changes nothing -/
theorem nothing_reported_nothing_changed (F : Flags) (e : Expr) (n : Val)
    (h1 : ((assign F e n).cats.fix && F.fix) = false)
    (h2 : ((assign F e n).cats.update && F.update) = false) : run F e n = e :=
  run_disjoint F e n h1 h2

/-- the same with the reported categories `cats e n` -/
theorem nothing_approved_nothing_changed (F : Flags) (e : Expr) (n : Val)
    (h1 : ((cats e n).fix && F.fix) = false) (h2 : ((cats e n).update && F.update) = false) :
    run F e n = e := by
  apply run_disjoint F e n <;> rw [(indep_gen F Flags.empty e n).1] <;> assumption

/-- pairwise equal sequences of the same length are aligned element by element -/
theorem equal_all_m (olds news : List Val) (h : pyEq.eqL olds news = true) :
    script olds news = List.replicate olds.length Align.Dir.m :=
  script_of_eqL h

/-! ### non-vacuity -/

section examples
open Ex

/-- `e0` against an equal value that is written differently (`True`/`1`, dict key order):
    with `fix` approved nothing is rewritten -/
example : run fixOnly e0 n1 = e0 :=
  equal_kept _ _ _ rfl (by decide) (by decide) (by decide) (by decide) (by decide)
example : run Flags.empty e0 n0 = e0 := nothing_reported_nothing_changed _ _ _ (by simp [Flags.empty])
  (by simp [Flags.empty])
example : script [.atom (.int 1), .atom (.bool true)] [.atom (.bool true), .atom (.int 1)]
    = [.m, .m] := by decide

end examples

end ISnap.Assign
