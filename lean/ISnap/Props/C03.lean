import ISnap.Lemmas.RewriteLemmas
/-
  C03 — `_rewrite_code.py`: `SourceFile.new_code` touches only the replaced ranges, rejects overlapping
  replacements, and does not run the formatter over a file that was not formatter-clean.

  Model: `ISnap.Model.Rewrite` (text = list of code points; `fmt`/`enforce` are parameters).
  Specification notions (`ISnap.Lemmas.RewriteLemmas`): `Chained`, `headPart`, `inLine`, `Canon`,
  `InLines`, `Canons`, `removed`, `inserted`.

  Findings recorded by the statements below (all confirmed with `#eval`, see the examples at the end):
    * F1  `replace_frame` needs `a ≤ b` (false for `rs = []`, `a > b`); on the other hand it needs neither
          `Chained` nor `b ≤ t.length`.
    * F2  `line_to_offset ∘ offset_to_line` is the identity on EVERY offset `≤ len`, also between `\r` and `\n`
          (columns are not clamped to the line), so no `InsideCRLF` hypothesis exists in the statement.
    * F3  `line_to_offset` is NOT monotone w.r.t. the (line, column) order: a column past the end of its line
          overshoots into the next lines (`"a\nb"`: (1,5) ≤ (2,0) but offsets 3 > 2).  Monotonicity holds exactly
          when the smaller position satisfies `inLine`.
    * F4  consequently `_check` (which compares (line, column) pairs) does not imply that the OFFSET ranges are
          ordered / disjoint; `checkSorted_chained` needs `InLines` (for `Chained`) and `Canons` (for
          `tripleLe`-sortedness: (1,2) and (2,0) of `"a\nb"` are different positions with the same offset, and
          `replace` then re-sorts the two insertions by their text, against the order `_check` saw).
    * F5  insertions at the same point are emitted in the order of their TEXT (then `change_id` plays no role),
          not in the order in which the changes were created: `newcode_two_insertions`.
-/
namespace ISnap.Rewrite

/-! ### 1. `asttokens.util.replace` keeps everything outside the replaced ranges -/

/-- recursive form of `replace` (definitional) -/
theorem replaceFrom_step (t : Str) (p s e : Nat) (x : Str) (rest : List (Nat × Nat × Str)) :
    replaceFrom t p ((s, e, x) :: rest) = (t.take s).drop p ++ x ++ replaceFrom t e rest := rfl

/-- recursive form over a split list: first what the prefix emits, then the rest from the new read position -/
theorem replaceFrom_split (t : Str) (p : Nat) (pre rest : List (Nat × Nat × Str)) :
    replaceFrom t p (pre ++ rest) =
      (headPart t p pre).1 ++ replaceFrom t (headPart t p pre).2 rest :=
  replaceFrom_append t pre rest p

/-- THE frame fact, from an arbitrary read position `p ≤ a`.
    No ordering assumption on `rs` is needed for the text outside `[a, b]` to survive. -/
theorem replaceFrom_frame (t : Str) (p a b : Nat) (rs : List (Nat × Nat × Str))
    (hpa : p ≤ a) (hab : a ≤ b) (h : ∀ r ∈ rs, a ≤ r.1 ∧ r.2.1 ≤ b) :
    ∃ mid, replaceFrom t p rs = (t.take a).drop p ++ mid ++ t.drop b :=
  frame_aux t p a b rs hpa hab h

/-- for a chained list the middle part is `replace` run on the window `[a, b)` alone -/
theorem replaceFrom_frame_explicit (t : Str) (p a b : Nat) (rs : List (Nat × Nat × Str))
    (hc : Chained t p rs) (hpa : p ≤ a) (hab : a ≤ b) (h : ∀ r ∈ rs, a ≤ r.1 ∧ r.2.1 ≤ b) :
    replaceFrom t p rs = (t.take a).drop p ++ replaceFrom (t.take b) a rs ++ t.drop b :=
  replaceFrom_frame_chained t b rs p a hc hpa hab h

/-- (a) everything before the first and after the last edited region survives verbatim.
    Hypothesis `a ≤ b` is forced (F1); `Chained t 0 rs` and `b ≤ t.length` are not needed. -/
theorem replace_frame (t : Str) (rs : List (Nat × Nat × Str)) (a b : Nat) (hab : a ≤ b)
    (h : ∀ r ∈ rs, a ≤ r.1 ∧ r.2.1 ≤ b) :
    ∃ mid, replaceFrom t 0 rs = t.take a ++ mid ++ t.drop b := by
  simpa using replaceFrom_frame t 0 a b rs (Nat.zero_le _) hab h

/-- (a) in the requested shape: for a non-empty chained list `a ≤ b` follows -/
theorem replace_frame_chained (t : Str) (rs : List (Nat × Nat × Str)) (a b : Nat)
    (hc : Chained t 0 rs) (hne : rs ≠ []) (h : ∀ r ∈ rs, a ≤ r.1 ∧ r.2.1 ≤ b) :
    replaceFrom t 0 rs = t.take a ++ replaceFrom (t.take b) a rs ++ t.drop b := by
  have hab : a ≤ b := by
    obtain ⟨r, hr⟩ := List.exists_mem_of_ne_nil rs hne
    have := hc.bounds r hr
    have := h r hr
    omega
  simpa using replaceFrom_frame_explicit t 0 a b rs hc (Nat.zero_le _) hab h

/-- (b) between two consecutive replacements the stretch `t[e:s']` appears verbatim
    (holds for every list; for a chained one that stretch has length `s' - e`, see `replace_between_length`) -/
theorem replace_between (t : Str) (rs pre post : List (Nat × Nat × Str)) (s e s' e' : Nat) (x x' : Str)
    (hrs : rs = pre ++ [(s, e, x), (s', e', x')] ++ post) :
    ∃ before after, replaceFrom t 0 rs = before ++ x ++ (t.take s').drop e ++ x' ++ after := by
  subst hrs
  refine ⟨(headPart t 0 pre).1 ++ (t.take s).drop (headPart t 0 pre).2, replaceFrom t e' post, ?_⟩
  rw [List.append_assoc, replaceFrom_split]
  simp

/-- in a chained list the text between two consecutive replacements is the full slice `t[e:s']` -/
theorem replace_between_length (t : Str) (pre post : List (Nat × Nat × Str)) (s e s' e' : Nat) (x x' : Str)
    (hc : Chained t 0 (pre ++ [(s, e, x), (s', e', x')] ++ post)) :
    e ≤ s' ∧ s' ≤ t.length ∧ ((t.take s').drop e).length = s' - e := by
  rw [List.append_assoc] at hc
  have h := hc.append_right
  cases h with
  | cons h1 h2 h3 h4 =>
    cases h4 with
    | cons g1 g2 g3 g4 =>
      refine ⟨g1, by omega, ?_⟩
      simp only [List.length_drop, List.length_take]
      omega

/-- length bookkeeping of a chained `replace` -/
theorem replaceFrom_length (t : Str) (rs : List (Nat × Nat × Str)) (hc : Chained t 0 rs) :
    (replaceFrom t 0 rs).length + removed rs = t.length + inserted rs := by
  simpa using hc.length_replaceFrom (Nat.zero_le _)

/-! ### 2. the second `sorted(...)` inside `replace` -/

theorem replaceText_sorted_chained (t : Str) (rs : List (Nat × Nat × Str))
    (h : rs.Pairwise (fun a b => tripleLe a b = true)) :
    replaceText t rs = replaceFrom t 0 rs := by
  unfold replaceText
  rw [List.mergeSort_of_pairwise h]

/-- frame for `replaceText`: the bounds are invariant under the re-sorting -/
theorem replaceText_frame (t : Str) (rs : List (Nat × Nat × Str)) (a b : Nat) (hab : a ≤ b)
    (h : ∀ r ∈ rs, a ≤ r.1 ∧ r.2.1 ≤ b) :
    ∃ mid, replaceText t rs = t.take a ++ mid ++ t.drop b :=
  replace_frame t (rs.mergeSort tripleLe) a b hab (fun r hr => h r (List.mem_mergeSort.1 hr))

/-- re-sorting a chained list keeps it chained, so `replaceText` of a chained list is `replaceFrom` of a
    chained list (a permutation of the given one) -/
theorem replaceText_chained (t : Str) (rs : List (Nat × Nat × Str)) (hc : Chained t 0 rs) :
    ∃ rs', rs'.Perm rs ∧ Chained t 0 rs' ∧ replaceText t rs = replaceFrom t 0 rs' :=
  ⟨rs.mergeSort tripleLe, List.mergeSort_perm rs tripleLe, hc.mergeSort, rfl⟩

/-! ### 3. `LineNumbers` -/

/-- `line_to_offset (offset_to_line i)` clamps `i` to the text (F2) -/
theorem lineToOffset_offsetToLine_clamp (t : Str) (i : Nat) :
    lineToOffset t (offsetToLine t i).1 (offsetToLine t i).2 = min i t.length :=
  lto_otl t i

/-- round trip.  No `¬ InsideCRLF t i` hypothesis: the model (like the Python code) does not clamp the column
    to the line, so the offset between `\r` and `\n` is `(line, len + 1)` and maps back to itself (F2). -/
theorem lineToOffset_offsetToLine (t : Str) (i : Nat) (h : i ≤ t.length) :
    lineToOffset t (offsetToLine t i).1 (offsetToLine t i).2 = i := by
  rw [lineToOffset_offsetToLine_clamp]; omega

/-- the other round trip is the definition of a canonical position; `offset_to_line` only yields those -/
theorem offsetToLine_canonical (t : Str) (i : Nat) :
    Canon t (offsetToLine t i).1 (offsetToLine t i).2 :=
  canon_offsetToLine t i

theorem lineToOffset_le (t : Str) (l c : Nat) : lineToOffset t l c ≤ t.length :=
  lto_le t l c

/-- monotone in the column, unconditionally -/
theorem lineToOffset_mono_col (t : Str) (l c1 c2 : Nat) (h : c1 ≤ c2) :
    lineToOffset t l c1 ≤ lineToOffset t l c2 :=
  lto_mono_col t l c1 c2 h

/-- monotonicity.  The hypothesis `inLine t l1 c1` is forced (F3); the clamp `min … len` does not rescue it. -/
theorem lineToOffset_mono (t : Str) (l1 c1 l2 c2 : Nat) (hin : inLine t l1 c1 = true)
    (h : posLe l1 c1 l2 c2 = true) : lineToOffset t l1 c1 ≤ lineToOffset t l2 c2 :=
  lto_mono t l1 c1 l2 c2 hin h

/-- canonical positions satisfy `inLine`, and `line_to_offset` is injective on them -/
theorem canon_inLine (t : Str) (l c : Nat) (h : Canon t l c) : inLine t l c = true := h.inLine

theorem lineToOffset_inj (t : Str) (l1 c1 l2 c2 : Nat) (h1 : Canon t l1 c1) (h2 : Canon t l2 c2)
    (h : lineToOffset t l1 c1 = lineToOffset t l2 c2) : l1 = l2 ∧ c1 = c2 :=
  Canon.inj h1 h2 h

/-! ### 4. `_check` on (line, column) positions versus the offsets handed to `replace` -/

/-- with columns inside their lines, `_check` makes the offset list chained (in the order `_check` saw) -/
theorem checkSorted_chained_inLines (t : Str) (rs : List Repl) (hc : checkSorted rs = true)
    (hin : InLines t rs) : Chained t 0 (rs.map (toOffsets t)) :=
  chained_of_checkSorted t rs 0 hc hin (fun _ _ => Nat.zero_le _)

/-- with canonical positions, a sorted and checked list maps to a chained AND `tripleLe`-sorted offset list.
    Hypotheses `hs` (the list is sorted by the dataclass order) and `hcan` are forced (F4). -/
theorem checkSorted_chained (t : Str) (rs : List Repl)
    (hs : rs.Pairwise (fun a b => Repl.le a b = true)) (hc : checkSorted rs = true)
    (hcan : Canons t rs) :
    Chained t 0 (rs.map (toOffsets t)) ∧
      (rs.map (toOffsets t)).Pairwise (fun a b => tripleLe a b = true) := by
  have hch := checkSorted_chained_inLines t rs hc hcan.inLines
  refine ⟨hch, ?_⟩
  have hp := List.pairwise_map.1 hch.pairwise
  rw [List.pairwise_map]
  exact (hs.and hp).imp_of_mem
    (fun ha hb h => tripleLe_of_le t _ _ (hcan _ ha) (hcan _ hb) h.1 h.2)

/-- `sorted(self.replacements)` is sorted (the dataclass order is a total preorder) -/
theorem sortRepls_pairwise (rs : List Repl) :
    (sortRepls rs).Pairwise (fun a b => Repl.le a b = true) := sortRepls_sorted rs

/-- what `new_code` hands to `replace` is chained and already sorted, so 1 and 2 apply -/
theorem newcode_offsets_chained (t : Str) (rs : List Repl) (hc : checkSorted (sortRepls rs) = true)
    (hcan : Canons t rs) :
    Chained t 0 ((sortRepls rs).map (toOffsets t)) ∧
      replaceText t ((sortRepls rs).map (toOffsets t)) =
        replaceFrom t 0 ((sortRepls rs).map (toOffsets t)) := by
  have h := checkSorted_chained t (sortRepls rs) (sortRepls_sorted rs) hc
    (fun r hr => hcan r (mem_sortRepls.1 hr))
  exact ⟨h.1, replaceText_sorted_chained t _ h.2⟩

/-- under the weaker `InLines`, `replace` still works on a chained list, but possibly a permutation (F4) -/
theorem newcode_offsets_chained_inLines (t : Str) (rs : List Repl)
    (hc : checkSorted (sortRepls rs) = true) (hin : InLines t rs) :
    ∃ os, os.Perm ((sortRepls rs).map (toOffsets t)) ∧ Chained t 0 os ∧
      replaceText t ((sortRepls rs).map (toOffsets t)) = replaceFrom t 0 os :=
  replaceText_chained t _
    (checkSorted_chained_inLines t (sortRepls rs) hc (fun r hr => hin r (mem_sortRepls.1 hr)))

/-- two insertions at the same offset come out ordered by their text, whatever the list order -/
theorem replaceText_two_insertions (t : Str) (i : Nat) (x y : Str) (hxy : strLe x y = true) :
    replaceText t [(i, i, x), (i, i, y)] = t.take i ++ x ++ y ++ t.drop i ∧
      replaceText t [(i, i, y), (i, i, x)] = t.take i ++ x ++ y ++ t.drop i := by
  have hd : (t.take i).drop i = [] := by simp
  constructor
  · simp [replaceText, mergeSort_pair, tripleLe, hxy, hd]
  · by_cases hyx : strLe y x = true
    · cases strLe_antisymm x y hxy hyx
      simp [replaceText, mergeSort_pair, tripleLe, hxy, hd]
    · simp [replaceText, mergeSort_pair, tripleLe, hyx, hd]

/-! ### 5. the formatter is not applied to a file that was not formatter-clean -/

theorem newcode_unformatted (fmt : Str → Str) (enforce : Bool) (t : Str) (rs : List Repl)
    (h1 : enforce = false) (h2 : fmt t ≠ t) :
    newCode fmt enforce t rs =
      if checkSorted (sortRepls rs) then some (replaceText t ((sortRepls rs).map (toOffsets t)))
      else none := by
  rw [newCode_eq]; simp [h1, h2]

/-- the complementary case: enforced formatting, or a clean file -/
theorem newcode_formatted (fmt : Str → Str) (enforce : Bool) (t : Str) (rs : List Repl)
    (h : enforce = true ∨ fmt t = t) :
    newCode fmt enforce t rs =
      if checkSorted (sortRepls rs) then
        some (fmt (replaceText t ((sortRepls rs).map (toOffsets t))))
      else none := by
  rw [newCode_eq]; simp [h]

/-- F5: two insertions at the same position are emitted in text order; list order and ids are irrelevant -/
theorem newcode_two_insertions (fmt : Str → Str) (t : Str) (l c : Nat) (x y : Str) (ia ib : Nat)
    (hd : fmt t ≠ t) (hxy : strLe x y = true) :
    newCode fmt false t [⟨l, c, l, c, x, ia⟩, ⟨l, c, l, c, y, ib⟩] =
        some (t.take (lineToOffset t l c) ++ x ++ y ++ t.drop (lineToOffset t l c)) ∧
      newCode fmt false t [⟨l, c, l, c, y, ib⟩, ⟨l, c, l, c, x, ia⟩] =
        some (t.take (lineToOffset t l c) ++ x ++ y ++ t.drop (lineToOffset t l c)) := by
  have h := replaceText_two_insertions t (lineToOffset t l c) x y hxy
  constructor <;>
  · rw [newcode_unformatted _ _ _ _ rfl hd, sortRepls, mergeSort_pair]
    split <;> simp [checkSorted, posLe, toOffsets, h.1, h.2]

/-! ### 6. overlapping replacements are rejected; the text outside the edits is preserved -/

theorem newcode_overlap_rejected (fmt : Str → Str) (enforce : Bool) (t : Str) (rs : List Repl)
    (h : checkSorted (sortRepls rs) = false) : newCode fmt enforce t rs = none := by
  rw [newCode_eq]; simp [h]

/-- converse direction -/
theorem newcode_some_checked (fmt : Str → Str) (enforce : Bool) (t : Str) (rs : List Repl) (r : Str)
    (h : newCode fmt enforce t rs = some r) : checkSorted (sortRepls rs) = true := by
  cases hc : checkSorted (sortRepls rs)
  · rw [newcode_overlap_rejected _ _ _ _ hc] at h; cases h
  · rfl

theorem newcode_none_iff (fmt : Str → Str) (enforce : Bool) (t : Str) (rs : List Repl) :
    newCode fmt enforce t rs = none ↔ checkSorted (sortRepls rs) = false := by
  rw [newCode_eq]; cases checkSorted (sortRepls rs) <;> simp

/-- a dirty file's result is exactly `replace` of the sorted offsets -/
theorem newcode_dirty_eq (fmt : Str → Str) (t : Str) (rs : List Repl) (r : Str)
    (h : newCode fmt false t rs = some r) (hd : fmt t ≠ t) :
    r = replaceText t ((sortRepls rs).map (toOffsets t)) := by
  rw [newcode_unformatted fmt false t rs rfl hd] at h
  split at h
  · exact (Option.some.inj h).symm
  · cases h

/-- end to end: a dirty file is untouched outside `[a, b]` when all replacements lie (as offsets) inside.
    `a ≤ b` is forced (F1, `rs = []`); no validity assumption on the positions is needed. -/
theorem newcode_outside_preserved (fmt : Str → Str) (t : Str) (rs : List Repl) (r : Str) (a b : Nat)
    (h : newCode fmt false t rs = some r) (hd : fmt t ≠ t) (hab : a ≤ b)
    (hin : ∀ x ∈ rs, a ≤ lineToOffset t x.sl x.sc ∧ lineToOffset t x.el x.ec ≤ b) :
    ∃ mid, r = t.take a ++ mid ++ t.drop b := by
  rw [newcode_dirty_eq fmt t rs r h hd]
  apply replaceText_frame t _ a b hab
  intro o ho
  obtain ⟨x, hx, rfl⟩ := List.mem_map.1 ho
  exact hin x (mem_sortRepls.1 hx)

/-- end to end with canonical positions: the middle part is `replace` on the window, the list is chained -/
theorem newcode_outside_preserved_explicit (fmt : Str → Str) (t : Str) (rs : List Repl) (r : Str)
    (a b : Nat) (h : newCode fmt false t rs = some r) (hd : fmt t ≠ t) (hab : a ≤ b)
    (hcan : Canons t rs)
    (hin : ∀ x ∈ rs, a ≤ lineToOffset t x.sl x.sc ∧ lineToOffset t x.el x.ec ≤ b) :
    r = t.take a ++ replaceFrom (t.take b) a ((sortRepls rs).map (toOffsets t)) ++ t.drop b := by
  have hc := newcode_some_checked fmt false t rs r h
  obtain ⟨hch, heq⟩ := newcode_offsets_chained t rs hc hcan
  rw [newcode_dirty_eq fmt t rs r h hd, heq]
  have := replaceFrom_frame_explicit t 0 a b _ hch (Nat.zero_le _) hab (by
    intro o ho
    obtain ⟨x, hx, rfl⟩ := List.mem_map.1 ho
    exact hin x (mem_sortRepls.1 hx))
  simpa using this

/-! ### non-vacuity -/

/-- `a=1\r\né=s(5)\r\nz\n` : a `\r\n` file with a non-ASCII code point (`é` = 233) before the edit -/
def exText : Str := [97, 61, 49, 13, 10, 233, 61, 115, 40, 53, 41, 13, 10, 122, 10]

/-- replace the `5` (line 2, columns 4–5) by `42`; insert `#` at the start of line 3 -/
def exRepls : List Repl := [⟨2, 4, 2, 5, [52, 50], 0⟩, ⟨3, 0, 3, 0, [35], 1⟩]

/-- a "formatter" that is not the identity on `exText`: it strips the trailing `\n` -/
def exFmt : Str → Str := fun s => s.dropLast

example : lineOffsets exText = [0, 5, 13, 15] := by decide
example : toOffsets exText ⟨2, 4, 2, 5, [52, 50], 0⟩ = (9, 10, [52, 50]) := by decide
-- F2: offset 4 lies between `\r` and `\n`; it is (1, 4) and maps back to 4
example : offsetToLine exText 4 = (1, 4) ∧ lineToOffset exText 1 4 = 4 := by decide
example : offsetToLine exText 9 = (2, 4) ∧ offsetToLine exText 15 = (4, 0) := by decide
-- F3: monotonicity fails without `inLine`
example : posLe 1 5 2 0 = true ∧ inLine [97, 10, 98] 1 5 = false ∧
    ¬ lineToOffset [97, 10, 98] 1 5 ≤ lineToOffset [97, 10, 98] 2 0 := by decide
-- F4: (1,2) and (2,0) of "a\nb" are both `inLine`, have the same offset, only (2,0) is canonical
example : inLine [97, 10, 98] 1 2 = true ∧ ¬ Canon [97, 10, 98] 1 2 ∧ Canon [97, 10, 98] 2 0 ∧
    lineToOffset [97, 10, 98] 1 2 = lineToOffset [97, 10, 98] 2 0 := by decide
-- F4: `_check` accepts, the offset ranges (0,3) and (2,3) overlap
example : checkSorted [⟨1, 0, 1, 5, [88], 0⟩, ⟨2, 0, 2, 1, [89], 0⟩] = true ∧
    [(⟨1, 0, 1, 5, [88], 0⟩ : Repl), ⟨2, 0, 2, 1, [89], 0⟩].map (toOffsets [97, 10, 98]) =
      [(0, 3, [88]), (2, 3, [89])] := by decide
-- F1: `replace_frame` without `a ≤ b`
example : ¬ ∃ mid, replaceFrom [1, 2] 0 [] = List.take 2 [1, 2] ++ mid ++ List.drop 0 [1, 2] := by
  rintro ⟨mid, h⟩
  have := congrArg List.length h
  simp at this

-- F4: the two insertions (1,2) `Z` and (2,0) `A` pass `_check` in this order, but land at the same offset 2
-- and `replace` emits `A` before `Z`
theorem exSwap : newCode exFmt false [97, 10, 98] [⟨1, 2, 1, 2, [90], 0⟩, ⟨2, 0, 2, 0, [65], 0⟩] =
      some [97, 10, 65, 90, 98] ∧
    replaceFrom [97, 10, 98] 0
      ((sortRepls [⟨1, 2, 1, 2, [90], 0⟩, ⟨2, 0, 2, 0, [65], 0⟩]).map (toOffsets [97, 10, 98])) =
      [97, 10, 90, 65, 98] := by
  have hs : sortRepls [⟨1, 2, 1, 2, [90], 0⟩, ⟨2, 0, 2, 0, [65], 0⟩] =
      [⟨1, 2, 1, 2, [90], 0⟩, ⟨2, 0, 2, 0, [65], 0⟩] := sortRepls_of_sorted (by decide)
  have hm : [(⟨1, 2, 1, 2, [90], 0⟩ : Repl), ⟨2, 0, 2, 0, [65], 0⟩].map (toOffsets [97, 10, 98]) =
      [(2, 2, [90]), (2, 2, [65])] := by decide
  rw [newcode_unformatted _ _ _ _ rfl (by decide), hs, hm,
    (replaceText_two_insertions [97, 10, 98] 2 [65] [90] (by decide)).2]
  decide

theorem exRepls_sorted : exRepls.Pairwise (fun a b => Repl.le a b = true) := by decide
theorem exRepls_canon : Canons exText exRepls := by unfold Canons; decide
theorem exFmt_dirty : exFmt exText ≠ exText := by decide

/-- the hypotheses of `checkSorted_chained` are satisfiable -/
example : Chained exText 0 (exRepls.map (toOffsets exText)) ∧
    (exRepls.map (toOffsets exText)).Pairwise (fun a b => tripleLe a b = true) :=
  checkSorted_chained exText exRepls exRepls_sorted (by decide) exRepls_canon

/-- `new_code` on the example, computed through the theorems (`mergeSort` does not reduce by `decide`) -/
theorem exNewCode : newCode exFmt false exText exRepls =
    some [97, 61, 49, 13, 10, 233, 61, 115, 40, 52, 50, 41, 13, 10, 35, 122, 10] := by
  have hs : sortRepls exRepls = exRepls := sortRepls_of_sorted exRepls_sorted
  have hc : checkSorted (sortRepls exRepls) = true := by rw [hs]; decide
  rw [newcode_unformatted exFmt false exText exRepls rfl exFmt_dirty, hc,
    (newcode_offsets_chained exText exRepls hc exRepls_canon).2, hs]
  decide

/-- the frame theorem applies with the window `[9, 13]` and its conclusion is non-trivial -/
example : ∃ mid, [97, 61, 49, 13, 10, 233, 61, 115, 40, 52, 50, 41, 13, 10, 35, 122, 10] =
    exText.take 9 ++ mid ++ exText.drop 13 :=
  newcode_outside_preserved exFmt exText exRepls _ 9 13 exNewCode exFmt_dirty (by decide) (by decide)

example : exText.take 9 = [97, 61, 49, 13, 10, 233, 61, 115, 40] ∧ exText.drop 13 = [122, 10] := by
  decide

/-- overlapping replacements are rejected -/
example : newCode exFmt false exText [⟨2, 4, 2, 6, [52], 0⟩, ⟨2, 5, 2, 6, [53], 1⟩] = none := by
  apply newcode_overlap_rejected
  rw [sortRepls_of_sorted (by decide)]
  decide

/-- F5: two insertions at (3,0): `!` (33) comes before `#` (35) although it was created later -/
example : newCode exFmt false exText [⟨3, 0, 3, 0, [35], 0⟩, ⟨3, 0, 3, 0, [33], 1⟩] =
    some [97, 61, 49, 13, 10, 233, 61, 115, 40, 53, 41, 13, 10, 33, 35, 122, 10] := by
  rw [(newcode_two_insertions exFmt exText 3 0 [33] [35] 1 0 exFmt_dirty (by decide)).2]
  decide

end ISnap.Rewrite
