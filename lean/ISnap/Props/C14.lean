import ISnap.Lemmas.SiteRun
/-
  C14 — each snapshot() call site has its own state; repeated evaluation aggregates.

  `noninterference`: in the session table, what is computed for call site `k` is a function of
  the events of site `k` alone — for every event list (any interleaving of any number of sites).
  `aggregate_extreme` / `aggregate_union`: repeated evaluations of one call accumulate into the
  extreme bound / the union of members.  `reeval_changed_argument_raises`: a later evaluation whose
  argument has another value raises and records nothing.
  (Events here are the flat ones — snap / op / touch / begin; a `stmt` only sequences them and stops
  at the first exception, which is Python control flow, not shared state.)
-/
namespace ISnap
variable {V : Type}

def Event.site : Event V → Option Nat
  | .snap k _ => some k
  | .op k _ _ _ _ => some k
  | .touch k _ => some k
  | _ => none

def Event.flat : Event V → Bool
  | .stmt _ _ => false
  | _ => true

theorem find_setSite_same (k : Nat) (s : Site V) (l : List (Nat × Site V)) :
    ((setSite k s l).find? (fun p => p.1 == k)).map (·.2) = some s := by
  induction l with
  | nil => simp [setSite]
  | cons p l ih =>
    obtain ⟨k', s'⟩ := p
    by_cases h : k' = k
    · subst h; simp [setSite]
    · have : (k' == k) = false := by simpa using h
      simp [setSite, this, List.find?_cons, ih]

theorem find_setSite_other (k k' : Nat) (hk : k' ≠ k) (s : Site V) (l : List (Nat × Site V)) :
    ((setSite k' s l).find? (fun p => p.1 == k)) = (l.find? (fun p => p.1 == k)) := by
  induction l with
  | nil =>
    have : (k' == k) = false := by simpa using hk
    simp [setSite, this]
  | cons p l ih =>
    obtain ⟨k2, s2⟩ := p
    by_cases h : k2 = k'
    · subst h
      have : (k2 == k) = false := by simpa using hk
      simp [setSite, List.find?_cons, this]
    · have h' : (k2 == k') = false := by simpa using h
      simp only [setSite, h', Bool.false_eq_true, if_false, List.find?_cons]
      cases hk2 : (k2 == k) <;> simp [ih]

theorem lookup_set_same (t : Table V) (k : Nat) (s : Site V) : (t.set k s).lookup k = some s := by
  simp [Table.lookup, Table.set, find_setSite_same]

theorem lookup_set_other (t : Table V) (k k' : Nat) (hk : k' ≠ k) (s : Site V) :
    (t.set k' s).lookup k = t.lookup k := by
  simp [Table.lookup, Table.set, find_setSite_other k k' hk]

/-- what one flat event does to the entry of its own site -/
def siteStep (o : Ops V) (f : Flags) (cur : Option (Site V)) : Event V → Option (Site V)
  | .snap _ old => match cur with | none => some (Site.ofOld old) | some s => some s
  | .op _ key op x c => match cur with | none => none | some s => some (s.step o f key op x c).st
  | .touch _ key => match cur with | none => none | some s => some (s.touch o key).st
  | _ => cur

theorem snap_fst (o : Ops V) (t : Table V) (k : Nat) (old : Option (OldArg V)) :
    (t.snap o k old).1 = (match t.lookup k with | none => t.set k (Site.ofOld old) | some _ => t) := by
  unfold Table.snap
  split
  · rename_i h; simp [h]
  · rename_i h; split <;> simp [h]

theorem lookup_counters_irrelevant (t : Table V) (m i k : Nat) :
    ({ t with missing := m, incorrect := i } : Table V).lookup k = t.lookup k := rfl

/-- an event leaves every other site's entry alone, and changes its own entry as a function of
    that entry only -/
theorem step_lookup (o : Ops V) (f : Flags) (t : Table V) (e : Event V) (he : e.flat = true) (k : Nat) :
    (t.step o f e).1.lookup k =
      (if e.site = some k then siteStep o f (t.lookup k) e else t.lookup k) := by
  cases e with
  | begin => simp [Table.step, Event.site, Table.lookup]
  | stmt pre body => simp [Event.flat] at he
  | snap k' old =>
    simp only [Table.step, snap_fst, Event.site, Option.some.injEq]
    by_cases h : k' = k
    · subst h
      cases hl : t.lookup k' with
      | none => simp [lookup_set_same, siteStep]
      | some s => simp [hl, siteStep]
    · simp only [h, if_false]
      cases hl : t.lookup k' with
      | none => simp [lookup_set_other t k k' h]
      | some s => simp
  | op k' key op x c =>
    simp only [Table.step, Event.site, Option.some.injEq]
    by_cases h : k' = k
    · subst h
      cases hl : t.lookup k' with
      | none => simp [hl, siteStep]
      | some s => simp [lookup_counters_irrelevant, lookup_set_same, siteStep]
    · simp only [h, if_false]
      cases hl : t.lookup k' with
      | none => rfl
      | some s => simp [lookup_counters_irrelevant, lookup_set_other t k k' h]
  | touch k' key =>
    simp only [Table.step, Event.site, Option.some.injEq]
    by_cases h : k' = k
    · subst h
      cases hl : t.lookup k' with
      | none => simp [hl, siteStep]
      | some s => simp [lookup_counters_irrelevant, lookup_set_same, siteStep]
    · simp only [h, if_false]
      cases hl : t.lookup k' with
      | none => rfl
      | some s => simp [lookup_counters_irrelevant, lookup_set_other t k k' h]

/-- the entry of site `k` after a run = fold of `siteStep` over the events of site `k` only -/
def runSite (o : Ops V) (f : Flags) (cur : Option (Site V)) (k : Nat) : List (Event V) → Option (Site V)
  | [] => cur
  | e :: es => runSite o f (if e.site = some k then siteStep o f cur e else cur) k es

theorem run_lookup (o : Ops V) (f : Flags) (es : List (Event V)) (t : Table V)
    (hflat : ∀ e ∈ es, e.flat = true) (k : Nat) :
    (Table.run o f t es).1.lookup k = runSite o f (t.lookup k) k es := by
  induction es generalizing t with
  | nil => simp [Table.run, runSite]
  | cons e es ih =>
    simp only [Table.run, runSite]
    rw [ih _ (fun e' he' => hflat e' (by simp [he']))]
    rw [step_lookup o f t e (hflat e (by simp)) k]

theorem runSite_filter (o : Ops V) (f : Flags) (k : Nat) (es : List (Event V)) (cur : Option (Site V)) :
    runSite o f cur k (es.filter (fun e => e.site == some k)) = runSite o f cur k es := by
  induction es generalizing cur with
  | nil => rfl
  | cons e es ih =>
    by_cases h : e.site = some k
    · simp [List.filter_cons, h, runSite, ih]
    · have : (e.site == some k) = false := by simpa using h
      simp [List.filter_cons, this, runSite, h, ih]

/-- C14 `noninterference`: for every interleaving, the state of call site `k` equals the state it
    gets when only its own events are run (from the same initial entry). -/
theorem noninterference (o : Ops V) (f : Flags) (es : List (Event V)) (t : Table V)
    (hflat : ∀ e ∈ es, e.flat = true) (k : Nat) :
    (Table.run o f t es).1.lookup k =
      (Table.run o f t (es.filter (fun e => e.site == some k))).1.lookup k := by
  rw [run_lookup o f es t hflat k,
    run_lookup o f _ t (fun e he => hflat e (List.mem_filter.1 he).1) k, runSite_filter]

/-- C14 `aggregate_extreme`: an empty snapshot evaluated repeatedly with `<=` (resp. `>=`) records
    the extreme of all observed values. -/
theorem aggregate_extreme (o : Ops V) (tot : TotalLe o) (f : Flags) (op : Op) (hop : isMM op)
    (xs : List V) (hne : xs ≠ []) :
    ∃ n, (({ old := none } : Leaf V).runOps o f op xs).1.final o { create := true } = .one n ∧
      n ∈ xs ∧ ∀ x ∈ xs, cmpK o op.kind n x = true := by
  obtain ⟨n, h1, h2, _h3, h4, _h5, h6⟩ := runOps_mm o tot f op hop xs { old := none }
    (Or.inl rfl) (Or.inl rfl) (Or.inl hne)
  have hc : (({ old := none } : Leaf V).runOps o f op xs).1.newC = none := by
    have : ∀ (xs : List V) (s : Leaf V), s.newC = none → (s.kind = .undecided ∨ s.kind = op.kind) →
        s.old = none → (s.runOps o f op xs).1.newC = none := by
      intro xs
      induction xs with
      | nil => intro s h _ _; simpa [Leaf.runOps]
      | cons x xs ih =>
        intro s h hk ho
        have hst := step_mm_state o f s op x hop hk (Or.inl ho)
        simp only [Leaf.runOps]
        exact ih _ (by rw [hst]; exact h) (by rw [hst]; exact Or.inr rfl) (by rw [hst]; exact ho)
    exact this xs _ rfl (Or.inl rfl) rfl
  refine ⟨n, ?_, ?_, h4⟩
  · simp [Leaf.final, h2, Leaf.newVal, h1, hc]
  · rcases h6 with h | h
    · exact h
    · simp at h

/-- C14 `aggregate_union`: an empty snapshot evaluated repeatedly with `in` records every tested
    value, and nothing else. -/
theorem aggregate_union (o : Ops V) (eqv : EqvLaws o) (f : Flags) (xs : List V) (hne : xs ≠ []) :
    ∃ l, (({ old := none } : Leaf V).runOps o f .isin xs).1.final o { create := true } = .many l ∧
      ∀ y, memBy o.eqv y l = memBy o.eqv y xs := by
  obtain ⟨l, h1, h2, _h3, h4⟩ := runOps_coll o eqv f xs { old := none } (Or.inl rfl) (Or.inl rfl) (Or.inl hne)
  exact ⟨l, by simp [Leaf.final, h2, Leaf.newVal, h1], fun y => by simpa [memBy] using h4 y⟩

/-- C14 `reeval_changed_argument_raises`: a later evaluation of the same call with another argument
    value raises a usage error and leaves the table unchanged. -/
theorem reeval_changed_argument_raises (o : Ops V) (t : Table V) (k : Nat) (s : Site V)
    (v w : V) (c c' : Bool) (hl : t.lookup k = some s) (hold : s.top.old = some (.leaf v c))
    (hne : o.eqv v w = false) :
    t.snap o k (some (.leaf w c')) = (t, some .usageError) := by
  simp [Table.snap, hl, hold, reEvalOk, hne]

/-! non-vacuity: two interleaved sites -/
example : let o : Ops Int := { eqv := (· == ·), le := (· ≤ ·), same := (· == ·) }
    ((Table.run o {} ({} : Table Int)
      [.snap 0 none, .snap 1 none, .op 0 none .ge 3 true, .op 1 none .le 3 true,
       .op 0 none .ge 5 true, .op 1 none .le 1 true]).1.lookup 0).map (·.top.new) = some (some 5) := by
  decide

end ISnap
