import ISnap.Lemmas.NestLemmas
/-
  C18 (second clause) — "the edits computed for one file never overlap", for nested arguments:
  after `apply_all` has dropped the changes that lie inside a replaced or deleted node (Model/Nest.lean,
  `survivors`), the text ranges of everything that is still applied — the replaced nodes and the stretches
  `generic_sequence_update` rewrites in every touched container — are pairwise disjoint, for every tree, every
  nesting depth and every well-formed set of changes.  `overlap_without_filter` shows that the filter is
  needed (this was the defect fixed in 7da8f5b / 9aefa8e).
-/
namespace ISnap.Nest

theorem survivors_ranges_disjoint (t : Tree) (all : List Edit) (hwf : wellFormed t all = true) :
    (ranges t (survivors all)).Pairwise (fun a b => disjoint a b = true) :=
  ranges_pairwise_disjoint t all hwf

/-- no surviving change lies inside a node that a surviving change removes -/
theorem survivor_not_inside (all : List Edit) (e r : Edit) (he : e ∈ survivors all) (hr : r ∈ survivors all)
    (q s : Path) (hq : r.removes = some q) (hs : e.walkStart = some s) : q.isPrefixOf s = false :=
  survivor_not_inside_aux all e r he hr q s hq hs

/-- without the filter the ranges overlap: `[a, [b, c], d]`, delete the inner list and replace `b` -/
theorem overlap_without_filter :
    ∃ t all, wellFormed t all = true ∧ ¬ (ranges t all).Pairwise (fun a b => disjoint a b = true) :=
  ⟨.node [.leaf, .node [.leaf, .leaf], .leaf], [.delete [1], .replace [1, 0]], by decide, by decide⟩

section examples
def exT : Tree := .node [.leaf, .node [.leaf, .leaf], .leaf]
def exAll : List Edit := [.delete [1], .replace [1, 0], .insert [1], .replace [0], .insert []]
example : wellFormed exT exAll = true := by decide
example : survivors exAll = [.delete [1], .replace [0], .insert []] := by decide
example : ranges exT (survivors exAll) = [(2, 3), (1, 2), (3, 12), (13, 14)] := by decide
end examples

end ISnap.Nest
