import ISnap.Lemmas.ExternalLemmas
/-
  C13 — the external storage directory.  Invariants of `ISnap.Model.External` over arbitrary histories of
  `start` / `outsource` / `finish` events, each in inductive form (`Inv s → Inv (step s ev)`) and for
  `run [] evs`.  `Hashed`, `WellHashed`, `Uniq`, `NoShadow`, `PrefixUnique` are defined in
  `ISnap/Lemmas/ExternalLemmas.lean`.
-/
namespace ISnap.External

/-! ## 1. the file name is the hash of the content -/

theorem I1_step (H : Nat → Hash) (s : Store) (ev : Ev) (hev : WellHashedEv H ev) (h : Hashed H s) :
    Hashed H (step s ev) := Hashed.step s ev hev h

theorem I1_name_is_hash (H : Nat → Hash) (evs : List Ev) (hw : WellHashed H evs) :
    ∀ e ∈ run [] evs, e.hash = H e.data :=
  Hashed.run hw (fun _ h => nomatch h)

/-- stronger, and without any hypothesis on the hash function: every file of the directory carries exactly
    the hash, suffix and data of some `outsource` event of the history -/
theorem every_entry_was_outsourced (evs : List Ev) :
    ∀ e ∈ run [] evs, Ev.outsource e.hash e.suffix e.data ∈ evs := by
  intro e he
  rcases outsourced_run he with ⟨_, h, _⟩ | h
  · cases h
  · exact h

theorem read_returns_outsourced (s : Store) (r : Ref) (d : Nat) (h : read s r = some d) :
    ∃ e ∈ s, e.data = d ∧ r.pre.isPrefixOf e.hash = true ∧ e.suffix = r.suffix := by
  unfold read at h
  obtain ⟨e, he, hd⟩ := Option.map_eq_some_iff.1 h
  unfold lookup at he
  split at he
  · rename_i e' hl
    cases he
    have hm : e ∈ lookupAll s { r with star := true } := by rw [hl]; exact List.mem_singleton_self e
    obtain ⟨hs, hg⟩ := List.mem_filter.1 hm
    simp only [globMatch, if_true, Bool.and_eq_true, beq_iff_eq] at hg
    exact ⟨e, hs, hd, hg.2, hg.1⟩
  · cases he

/-- what is read has a hash with the requested prefix, over any well-hashed history -/
theorem read_hash_has_prefix (H : Nat → Hash) (evs : List Ev) (hw : WellHashed H evs) (r : Ref) (d : Nat)
    (h : read (run [] evs) r = some d) :
    r.pre.isPrefixOf (H d) = true ∧ Ev.outsource (H d) r.suffix d ∈ evs := by
  obtain ⟨e, he, hd, hp, hs⟩ := read_returns_outsourced _ r d h
  have h1 := I1_name_is_hash H evs hw e he
  have h2 := every_entry_was_outsourced evs e he
  rw [hd] at h1
  rw [h1] at hp
  rw [h1, hs, hd] at h2
  exact ⟨hp, h2⟩

/-! ## 2. never two files with the same name -/

theorem unique_names_step (s : Store) (ev : Ev) (h : Uniq s) : Uniq (step s ev) := Uniq.step s ev h

theorem unique_names (evs : List Ev) : (run [] evs).Pairwise (fun a b => sameName a b = false) :=
  Uniq.run (s := []) evs List.Pairwise.nil

/-! ## 3. `-new` files die at session start -/

theorem I3_new_files_die_at_start (s : Store) : ∀ e ∈ step s .start, e.isNew = false :=
  fun _ he => (mem_prune.1 he).2

theorem I3_history (s : Store) (evs : List Ev) : ∀ e ∈ run s (evs ++ [.start]), e.isNew = false := by
  rw [run_snoc]; exact I3_new_files_die_at_start _

/-- a `-new` file present after a history was outsourced since the last `start` -/
theorem new_since_last_start (s : Store) (pre post : List Ev) (e : Entry)
    (he : e ∈ run s (pre ++ [.start] ++ post)) (hn : e.isNew = true) (hns : Ev.start ∉ post) :
    Ev.outsource e.hash e.suffix e.data ∈ post := by
  rw [run_append] at he
  rcases new_run he hn hns with h | h
  · have := I3_history s pre e h
    rw [hn] at this; exact absurd this (by decide)
  · exact h

/-! ## 4. a file is persisted only if a rewritten test file refers to it -/

/-- step form: a persisted file after a step was persisted before the step, or the step is a `finish`,
    the same file with the `-new` infix was there before, and a written reference matches it -/
theorem persisted_step (s : Store) (ev : Ev) (e : Entry) (he : e ∈ step s ev) (hn : e.isNew = false) :
    e ∈ s ∨ ∃ w a t, ev = .finish w a t ∧ { e with isNew := true } ∈ s ∧
      ∃ r ∈ w, persistMatch r e = true := by
  rcases mem_step he with h | ⟨h, _⟩ | ⟨_, h2, w, a, t, h3, h4⟩
  · exact Or.inl h
  · rw [hn] at h; exact absurd h (by decide)
  · exact Or.inr ⟨w, a, t, h3, h2, h4⟩

/-- history form: the history splits at a `finish` event with a written reference matching the file, and
    right before that `finish` the file was there as a `-new` file (same hash, suffix, data) -/
theorem I2_persisted_only_if_referenced (evs : List Ev) (e : Entry) (he : e ∈ run [] evs)
    (hn : e.isNew = false) :
    ∃ pre w a t post, evs = pre ++ .finish w a t :: post ∧
      { e with isNew := true } ∈ run [] pre ∧ ∃ r ∈ w, persistMatch r e = true := by
  rcases persisted_run he hn with h | h
  · cases h
  · exact h

theorem I2_finish_event (evs : List Ev) (e : Entry) (he : e ∈ run [] evs) (hn : e.isNew = false) :
    ∃ w a t, Ev.finish w a t ∈ evs ∧ ∃ r ∈ w, persistMatch r e = true := by
  obtain ⟨pre, w, a, t, post, h, _, hr⟩ := I2_persisted_only_if_referenced evs e he hn
  exact ⟨w, a, t, by rw [h]; simp, hr⟩

/-! ## 5. a persisted file is removed only by an approved trim that found no reference to it -/

/-- holds for every store: the rename-onto-an-existing-file case of `persist` is unreachable, because the
    existing `<h>.<sfx>` matches the pattern `<prefix>*<sfx>` too and the match is then not unique -/
theorem I4_removed_only_by_trim (s : Store) (ev : Ev) (e : Entry) (he : e ∈ s) (hn : e.isNew = false)
    (hgone : e ∉ step s ev) :
    ∃ w a, ev = .finish w a true ∧ ∀ r ∈ a, globMatch r e = false := by
  cases ev with
  | start => exact absurd (mem_prune.2 ⟨he, hn⟩) hgone
  | outsource h sfx d =>
    exfalso; apply hgone
    show e ∈ outsource s h sfx d
    rcases outsource_cases s h sfx d with h1 | ⟨_, h1⟩ <;> rw [h1]
    · exact he
    · exact mem_save.2 (Or.inl ⟨he, sameName_false_of_isNew_ne (by rw [hn]; simp)⟩)
  | finish w a t =>
    have hp : e ∈ persistAll s w := persistAll_keeps_persisted he hn
    cases t with
    | false => exfalso; apply hgone; show e ∈ finish s w a false; simpa [finish] using hp
    | true =>
      refine ⟨w, a, rfl, ?_⟩
      intro r hr
      cases hg : globMatch r e
      · rfl
      · exfalso; apply hgone
        show e ∈ finish s w a true
        simp only [finish, if_true, List.mem_filter]
        exact ⟨hp, List.any_eq_true.2 ⟨r, hr, hg⟩⟩

/-- the other direction: after an approved trim only referenced files are left -/
theorem trim_keeps_only_referenced (s : Store) (w a : List Ref) (e : Entry)
    (he : e ∈ step s (.finish w a true)) : ∃ r ∈ a, globMatch r e = true := by
  have : e ∈ finish s w a true := he
  simp only [finish, if_true, List.mem_filter] at this
  exact List.any_eq_true.1 this.2

/-- history form: a persisted file stays as long as every approved trim sees a reference to it -/
theorem persisted_survives (s : Store) (evs : List Ev) (e : Entry) (he : e ∈ s) (hn : e.isNew = false)
    (href : ∀ w a, Ev.finish w a true ∈ evs → ∃ r ∈ a, globMatch r e = true) : e ∈ run s evs := by
  induction evs generalizing s with
  | nil => exact he
  | cons ev evs ih =>
    rw [run_cons]
    refine ih _ ?_ (fun w a h => href w a (List.mem_cons_of_mem _ h))
    apply Classical.byContradiction
    intro hgone
    obtain ⟨w, a, hev, hno⟩ := I4_removed_only_by_trim s ev e he hn hgone
    obtain ⟨r, hr, hg⟩ := href w a (hev ▸ List.mem_cons_self)
    rw [hno r hr] at hg; exact absurd hg (by decide)

/-- the invariant behind it: `<h>-new.<sfx>` and `<h>.<sfx>` never coexist -/
theorem no_shadow_step (s : Store) (ev : Ev) (h : NoShadow s) : NoShadow (step s ev) := NoShadow.step s ev h

theorem no_shadow (evs : List Ev) : NoShadow (run [] evs) :=
  NoShadow.run (s := []) evs (fun _ h => nomatch h)

/-! ## 6. an ambiguous or missing name raises -/

theorem lookup_ambiguous_or_missing_raises (s : Store) (r : Ref) (e : Entry) (h : lookup s r = some e) :
    lookupAll s r = [e] := by
  unfold lookup at h
  split at h
  · rename_i e' hl; cases h; exact hl
  · cases h

theorem read_unique (s : Store) (r : Ref) (d : Nat) (h : read s r = some d) :
    (s.filter (globMatch { r with star := true })).length = 1 := by
  unfold read at h
  obtain ⟨e, he, _⟩ := Option.map_eq_some_iff.1 h
  have := lookup_ambiguous_or_missing_raises _ _ _ he
  unfold lookupAll at this
  rw [this]; rfl

theorem lookup_none_of_not_unique (s : Store) (r : Ref) (h : (lookupAll s r).length ≠ 1) :
    lookup s r = none := by
  unfold lookup
  split
  · rename_i e he; rw [he] at h; exact absurd rfl h
  · rfl

theorem read_none_of_not_unique (s : Store) (r : Ref)
    (h : (s.filter (globMatch { r with star := true })).length ≠ 1) : read s r = none := by
  unfold read
  rw [lookup_none_of_not_unique _ _ h]; rfl

theorem lookup_isSome_iff (s : Store) (r : Ref) : (lookup s r).isSome = true ↔ (lookupAll s r).length = 1 := by
  constructor
  · intro h
    obtain ⟨e, he⟩ := Option.isSome_iff_exists.1 h
    rw [lookup_ambiguous_or_missing_raises s r e he]; rfl
  · intro h
    apply Classical.byContradiction
    intro hn
    cases hl : lookup s r with
    | some e => rw [hl] at hn; exact hn rfl
    | none =>
      unfold lookup at hl
      split at hl
      · cases hl
      · rename_i hne
        match hm : lookupAll s r, h with
        | [e], _ => exact hne e hm

/-! ## 7. a uniquely referenced file is persisted; a colliding prefix persists nothing -/

/-- forced hypothesis `PrefixUnique`: exactly one entry `e` of `s` matches `<r.pre>*<r.suffix>` -/
theorem referenced_is_persisted (s : Store) (r : Ref) (e : Entry) (hu : Uniq s) (hp : PrefixUnique s r e) :
    { e with isNew := false } ∈ persist s r ∧ ∀ x ∈ persist s r, persistMatch r x = true → x.isNew = false := by
  obtain ⟨hes, hm, hall⟩ := hp
  have hf : s.filter (persistMatch r) = [e] := filter_eq_singleton_of_unique hu.nodup hes hm hall
  rw [persist_of_filter hf]
  cases hn : e.isNew
  · have : ({ e with isNew := false } : Entry) = e := by cases e; simp_all
    simp only [this, Bool.false_eq_true, if_false]
    exact ⟨hes, fun x hx hpx => by rw [hall x hx hpx, hn]⟩
  · simp only [if_true]
    refine ⟨by simp, ?_⟩
    intro x hx hpx
    rw [List.mem_append, List.mem_filter, List.mem_singleton] at hx
    rcases hx with ⟨hxs, hxf⟩ | hx
    · have := hall x hxs hpx
      subst this
      simp [sameName_refl] at hxf
    · rw [hx]

/-- without the hypothesis the clause is false: two `-new` files share the referenced prefix, `persist`
    changes nothing and the referenced file stays a `-new` file (which the next `start` deletes) -/
theorem referenced_not_persisted_on_collision :
    let s : Store := [⟨[1, 2, 3], true, 0, 10⟩, ⟨[1, 2, 4], true, 0, 20⟩]
    let r : Ref := ⟨[1, 2], true, 0⟩
    Uniq s ∧ persist s r = s ∧ (∀ e ∈ persist s r, e.isNew = true) ∧
      step (finish s [r] [r] false) .start = [] := by
  refine ⟨?_, by decide, by decide, by decide⟩
  unfold Uniq; decide

/-! ## 8. idempotence -/

theorem outsource_idempotent (s : Store) (h : Hash) (sfx d : Nat) :
    outsource (outsource s h sfx d) h sfx d = outsource s h sfx d := by
  rcases outsource_cases s h sfx d with h1 | ⟨hnone, h1⟩
  · rw [h1]; exact h1
  · rw [h1]
    rw [outsource_of_none d, save_idempotent]
    intro x hx hh hs
    rcases mem_save.1 hx with hx | hx
    · exact hnone x hx.1 hh hs
    · rw [hx]

theorem prune_idempotent (s : Store) : prune (prune s) = prune s := by
  simp [prune, List.filter_filter]

theorem start_idempotent (s : Store) : step (step s .start) .start = step s .start := prune_idempotent s

/-! ## non-vacuity -/

/-- start, two outsources, finish with one written reference, start again: the referenced file is persisted
    and survives, the other `-new` file dies at the second start -/
example :
    run [] [.start, .outsource [1, 2, 3] 0 10, .outsource [4, 5, 6] 0 20,
            .finish [⟨[1, 2], true, 0⟩] [⟨[1, 2], true, 0⟩] false, .start]
      = [⟨[1, 2, 3], false, 0, 10⟩] := by decide

example :
    run [] [.start, .outsource [1, 2, 3] 0 10, .outsource [4, 5, 6] 0 20,
            .finish [⟨[1, 2], true, 0⟩] [⟨[1, 2], true, 0⟩] false]
      = [⟨[4, 5, 6], true, 0, 20⟩, ⟨[1, 2, 3], false, 0, 10⟩] := by decide

/-- an approved trim removes the unreferenced persisted file -/
example :
    run [⟨[7, 7], false, 1, 5⟩, ⟨[1, 2, 3], false, 0, 10⟩]
        [.start, .finish [] [⟨[1, 2, 3], false, 0⟩] true]
      = [⟨[1, 2, 3], false, 0, 10⟩] := by decide

/-- the hypotheses of `read_hash_has_prefix` are satisfiable with a successful read -/
example :
    let H : Nat → Hash := fun d => [d / 10, d % 10]
    let evs : List Ev := [.start, .outsource [4, 2] 0 42]
    WellHashed H evs ∧ read (run [] evs) ⟨[4], true, 0⟩ = some 42 := by
  refine ⟨?_, by decide⟩
  intro ev hev
  simp only [List.mem_cons, List.not_mem_nil, or_false] at hev
  rcases hev with h | h <;> subst h <;> simp [WellHashedEv]

end ISnap.External
