import ISnap.Model.Sexp
import ISnap.Model.Basic
import ISnap.Model.Site
import ISnap.Model.Table
import ISnap.Model.Value
import ISnap.Driver.SiteCmd
/-
  isnap-driver: one s-expression per line in, one per line out (DESIGN.md §3.7).
  Unknown or malformed input answers `(bad-op)`, never a default.
-/
open ISnap

def handle (e : Sexp) : Sexp :=
  match e with
  | .list (.atom "sites" :: rest) => (SiteCmd.run rest).getD (.list [.atom "bad-op"])
  | .list [.atom "ping"] => .list [.atom "pong"]
  | _ => .list [.atom "bad-op"]

partial def loop (h : IO.FS.Stream) (out : IO.FS.Stream) : IO Unit := do
  let line ← h.getLine
  if line.isEmpty then return ()
  let ans := match Sexp.parse line with
    | some e => handle e
    | none => .list [.atom "bad-op"]
  out.putStrLn ans.toStr
  loop h out

def main : IO Unit := do
  let out ← IO.getStdout
  loop (← IO.getStdin) out
  out.flush
