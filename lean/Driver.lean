import ISnap.Model.Sexp
import ISnap.Model.Basic
import ISnap.Model.Site
import ISnap.Model.Table
import ISnap.Model.Value
import ISnap.Driver.SiteCmd
import ISnap.Driver.AlignCmd
import ISnap.Driver.StrCmd
import ISnap.Driver.RewriteCmd
import ISnap.Driver.AssignCmd
import ISnap.Driver.SessionCmd
import ISnap.Driver.ExternalCmd
import ISnap.Driver.SetCmd
import ISnap.Driver.FinishCmd
import ISnap.Driver.CallCmd
import ISnap.Driver.SeqCmd
import ISnap.Driver.NestCmd
/-
  isnap-driver: one s-expression per line in, one per line out (DESIGN.md §3.7).
  Unknown or malformed input answers `(bad-op)`, never a default.
-/
open ISnap

def handle (e : Sexp) : Sexp :=
  match e with
  | .list (.atom "sites" :: rest) => (SiteCmd.run rest).getD (.list [.atom "bad-op"])
  | .list (.atom "assign" :: rest) => (AssignCmd.run rest).getD (.list [.atom "bad-op"])
  | .list (.atom "storage" :: rest) => (ExternalCmd.run rest).getD (.list [.atom "bad-op"])
  | .list (.atom "setsort" :: rest) => (SetCmd.run rest).getD (.list [.atom "bad-op"])
  | .list (.atom "callassign" :: rest) => (CallCmd.run rest).getD (.list [.atom "bad-op"])
  | .list (.atom "nest" :: rest) => (NestCmd.run rest).getD (.list [.atom "bad-op"])
  | .list (.atom "seqedit" :: rest) => (SeqCmd.run rest).getD (.list [.atom "bad-op"])
  | .list (.atom "align" :: rest) => (AlignCmd.run rest).getD (.list [.atom "bad-op"])
  | .list (.atom c :: rest) =>
    if c == "strlit" || c == "pyrepr" || c == "bytesrepr" || c == "evallit" || c == "evalbytes" then
      (StrCmd.run c rest).getD (.list [.atom "bad-op"])
    else if c == "newcode" || c == "linecol" then
      (RewriteCmd.run c rest).getD (.list [.atom "bad-op"])
    else if c == "session" || c == "inline" || c == "tables" then
      (SessionCmd.run c rest).getD (.list [.atom "bad-op"])
    else if c == "finish" || c == "plan" then
      (FinishCmd.run c rest).getD (.list [.atom "bad-op"])
    else if c == "ping" then .list [.atom "pong"] else .list [.atom "bad-op"]
  | _ => .list [.atom "bad-op"]

partial def loop (h : IO.FS.Stream) (out : IO.FS.Stream) : IO Unit := do
  let line ← h.getLine
  if line.isEmpty then return ()
  let ans := match Sexp.parse line with
    | some e => handle e
    | none => .list [.atom "bad-op"]
  out.putStrLn ans.toStr
  loop h out

def main : IO Unit := do
  let out ← IO.getStdout
  loop (← IO.getStdin) out
  out.flush
