import ISnap.Model.Sexp
import ISnap.Model.Basic
import ISnap.Model.Site
import ISnap.Model.Table
import ISnap.Model.Value
import ISnap.Driver.SiteCmd
import ISnap.Props.C06
import ISnap.Props.C07
