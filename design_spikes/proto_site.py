"""Throw-away: Appendix A rules (python transcription) vs real inline-snapshot, int values."""
import sys, random, tempfile, pathlib, itertools, io, contextlib, ast, shutil
sys.path.insert(0, "/repo/src")
from inline_snapshot._global_state import snapshot_env
from inline_snapshot._flags import Flags
from inline_snapshot._change import apply_all
from inline_snapshot._rewrite_code import ChangeRecorder
from inline_snapshot._external import DiscStorage
import inline_snapshot._config as _config

CATS = ["create","fix","trim","update"]

# ---------- model (Appendix A), values = ints, collection old = list of ints, dict old = {str:int}
class M:
    def __init__(self, old, flags, canonical=True):
        self.old, self.f, self.kind, self.new = old, flags, None, None
        self.missing = self.incorrect = 0
        self.canonical = canonical   # source tokens == regenerated tokens
        self.children = {}
    def ret(self, r, rn=True):
        if not r: self.incorrect += 1
        f=self.f
        if "fix" in f or "create" in f or "update" in f or self.old is None: return rn
        return r
    def ign(self): return "fix" in self.f or "update" in self.f
    def vis(self):
        f=self.f
        return self.new if ("fix" in f or "update" in f or "create" in f or self.old is None) else self.old
    def op(self, kind, x):
        if self.kind is None: self.kind = kind
        elif self.kind != kind: return "TypeError"
        if kind == "eq":
            if self.old is None: self.missing += 1
            if self.new is None: self.new = x
            return self.ret(self.old == x if self.old is not None else False, self.new == x)
        if kind in ("ge","le"):   # ge: snapshot >= x (Max) ; le: snapshot <= x (Min)
            cmp = (lambda a,b: a>=b) if kind=="ge" else (lambda a,b: a<=b)
            if self.old is None: self.missing += 1
            if self.new is None:
                self.new = x
                if self.old is None or self.ign(): return True
                return self.ret(cmp(self.old, x))
            else:
                if not cmp(self.new, x): self.new = x
            return self.ret(cmp(self.vis(), x))
        if kind == "in":
            if self.old is None: self.missing += 1
            if self.new is None: self.new=[x]
            elif x not in self.new: self.new.append(x)
            if self.ign() or self.old is None: return True
            return self.ret(x in self.old)
    def cats(self):
        if self.kind is None: return set() if (self.old is None or self.canonical) else {"update"}
        if self.old is None: return {"create"} if self.new is not None else set()
        k=self.kind
        if k=="eq":
            if self.old != self.new: return {"fix"}
            return set() if self.canonical else {"update"}
        if k in("ge","le"):
            cmp = (lambda a,b: a>=b) if k=="ge" else (lambda a,b: a<=b)
            if not cmp(self.old,self.new): return {"fix"}
            if not cmp(self.new,self.old): return {"trim"}
            return set() if self.canonical else {"update"}
        if k=="in":
            c=set()
            if any(v not in self.new for v in self.old): c.add("trim")
            if any(v not in self.old for v in self.new): c.add("fix")
            return c
    def final(self, approved):
        c=self.cats()
        if self.kind is None or not (c & approved): return self.old
        if self.old is None: return self.new
        if self.kind=="in":
            r=[v for v in self.old if not ("trim" in approved and v not in self.new)]
            if "fix" in approved: r += [v for v in self.new if v not in self.old]
            return r
        return self.new

# ---------- implementation driver
def run_impl(old, kind, obs, flags, approved):
    d = pathlib.Path(tempfile.mkdtemp(prefix="proto_"))
    arg = "" if old is None else repr(old)
    opsrc = {"eq":"x == s","ge":"x <= s","le":"x >= s","in":"x in s"}[kind]
    lines = ["from inline_snapshot import snapshot","R=[]","def test_a():"]
    lines.append(f"    for x in {obs!r}:")
    lines.append(f"        s = snapshot({arg})")
    lines.append("        try: R.append(bool(%s))" % opsrc)
    lines.append("        except TypeError: R.append('TypeError')")
    f = d/"test_a.py"; f.write_text("\n".join(lines)+"\n")
    _config.config = _config.Config()
    g={}
    with snapshot_env() as state:
        state.update_flags = Flags(set(flags)); state.storage = DiscStorage(d/".storage")
        try:
            exec(compile(f.read_text(), str(f), "exec"), g); g["test_a"]()
        finally:
            state.active=False
        miss, inc = state.missing_values, state.incorrect_values
        changes=[]
        for s in state.snapshots.values(): changes += list(s._changes())
        cats={c.flag for c in changes}
        rec=ChangeRecorder(); apply_all([c for c in changes if c.flag in approved], rec); rec.fix_all()
    tree=ast.parse(f.read_text())
    call=[n for n in ast.walk(tree) if isinstance(n,ast.Call) and getattr(n.func,'id',None)=="snapshot"][0]
    final = ast.literal_eval(call.args[0]) if call.args else None
    shutil.rmtree(d)
    return g["R"], miss, inc, cats, final

def main():
    rng=random.Random(int(sys.argv[1]) if len(sys.argv)>1 else 0)
    N=int(sys.argv[2]) if len(sys.argv)>2 else 400
    bad=0
    for i in range(N):
        kind=rng.choice(["eq","ge","le","in"])
        obs=[rng.randint(0,4) for _ in range(rng.randint(1,5))]
        if kind=="eq" and rng.random()<0.7: obs=[obs[0]]*len(obs)
        if kind=="in": old=rng.choice([None]+[[rng.randint(0,4) for _ in range(rng.randint(0,3))] for _ in range(3)])
        else: old=rng.choice([None,0,1,2,3,4])
        if isinstance(old,list): old=list(dict.fromkeys(old))
        flags={c for c in CATS if rng.random()<0.35}
        approved=flags
        m=M(None if old is None else (list(old) if isinstance(old,list) else old), flags)
        mr=[m.op(kind,x) for x in obs]
        try:
            with contextlib.redirect_stdout(io.StringIO()), contextlib.redirect_stderr(io.StringIO()):
                ir,miss,inc,cats,final=run_impl(old,kind,obs,flags,approved)
        except Exception as e:
            print("IMPL-EXC",kind,old,obs,flags,type(e).__name__,e); bad+=1; continue
        mo=(mr,m.missing,m.incorrect,m.cats(),m.final(approved))
        io_=(ir,miss,inc,cats,final)
        if mo!=io_:
            bad+=1; print("DIFF",kind,"old",old,"obs",obs,"flags",sorted(flags)); print("   model",mo); print("   impl ",io_)
    print("cases",N,"bad",bad)

if __name__=="__main__": main()
