"""Throw-away: DictAdapter.assign + apply_all(Dict) + Appendix C, text level, vs real implementation."""
import sys, random, tempfile, pathlib, io, contextlib, ast, shutil
sys.path.insert(0, "/repo/src")
from inline_snapshot._global_state import snapshot_env
from inline_snapshot._flags import Flags
from inline_snapshot._change import apply_all
from inline_snapshot._rewrite_code import ChangeRecorder
from inline_snapshot._external import DiscStorage
import inline_snapshot._config as _config
CATS=["create","fix","trim","update"]

def render(old, rng):
    gapws=lambda: rng.choice([""," ","  ","\n        "," # c\n        "])
    t="{"+gapws(); spans=[]
    for k,(key,sp,v,can) in enumerate(old):
        a=len(t); t+=repr(key)+rng.choice([""," "])+":"+rng.choice([""," "]); va=len(t); t+=sp; b=len(t)
        spans.append((a,va,b))
        if k<len(old)-1: t+=gapws()+","+gapws()
        else:
            if rng.random()<0.4: t+=gapws()+","
            t+=gapws()
    return t+"}", spans

def model(argtext, spans, old, new, approved):
    reps=[]; oldd={k:(sp,v,can) for k,sp,v,can in old}; keys=[k for k,_,_,_ in old]
    entries=[]
    for i,k in enumerate(keys):
        entries.append(None if (k not in new and 'fix' in approved) else (spans[i][0],spans[i][2]))
    ins={}; to_insert=[]; pos=0; structural=any(k not in new for k in keys)
    for k,nv in new.items():
        if k not in oldd: to_insert.append(f'"{k}": {nv}')
        else:
            sp,v,can=oldd[k]; i=keys.index(k)
            if (v!=nv and 'fix' in approved) or (v==nv and not can and 'update' in approved):
                reps.append((spans[i][1],spans[i][2],str(nv)))
            if to_insert: ins[pos]=to_insert; to_insert=[]; structural=True
            pos+=1
    if to_insert: ins[len(keys)]=to_insert; structural=True
    if structural and 'fix' in approved:
        last=1; newc=[]; deleted=False; start=True; count=0; close=len(argtext)-1
        for i,e in enumerate(entries):
            if i in ins: newc+=ins[i]
            if e is None: deleted=True
            else:
                a,b=e; count+=len(newc)+1
                if deleted or newc:
                    code=""
                    if newc: code=", ".join(newc)+", "
                    if not start: code=", "+code
                    reps.append((last,a,code))
                newc=[]; deleted=False; last=b; start=False
        n=len(entries)
        if n in ins: newc+=ins[n]; count+=len(newc)
        if newc or deleted or count==1 or n<=1:
            code=", ".join(newc)
            if not start and code: code=", "+code
            reps.append((last,close,code))
    out=[];p=0
    for a,b,c in sorted(reps):
        out.append(argtext[p:a]); out.append(c); p=b
    out.append(argtext[p:]); return "".join(out)

def run_impl(argtext, new, flags):
    d = pathlib.Path(tempfile.mkdtemp(prefix="proto_"))
    pre=f"from inline_snapshot import snapshot\ndef test_a():\n    assert {new!r} == snapshot("
    f = d/"test_a.py"; f.write_text(pre+argtext+")\n")
    _config.config = _config.Config(); g={}
    with snapshot_env() as state:
        state.update_flags = Flags(set(flags)); state.storage = DiscStorage(d/".storage")
        try:
            exec(compile(f.read_text(), str(f), "exec"), g)
            try: g["test_a"]()
            except AssertionError: pass
        finally: state.active=False
        changes=[]
        for s in state.snapshots.values(): changes += list(s._changes())
        rec=ChangeRecorder(); apply_all([c for c in changes if c.flag in flags], rec); rec.fix_all()
    src=f.read_text(); shutil.rmtree(d)
    return src[len(pre):-2]

rng=random.Random(int(sys.argv[1]) if len(sys.argv)>1 else 0); N=int(sys.argv[2]) if len(sys.argv)>2 else 300
bad=0
for i in range(N):
    ks=rng.sample(["a","b","c","d","e"],rng.randint(0,4)); old=[]
    for k in ks:
        v=rng.randrange(3); can=rng.random()<0.5
        old.append((k,str(v) if can else f"0+{v}",v,can))
    nk=rng.sample(["a","b","c","d","e"],rng.randint(0,4)); new={k:(dict((o[0],o[2]) for o in old).get(k,rng.randrange(3)) if rng.random()<0.6 else rng.randrange(3)) for k in nk}
    flags={c for c in CATS if rng.random()<0.5}
    argtext,spans=render(old,rng)
    mt=model(argtext,spans,old,new,flags)
    try:
        with contextlib.redirect_stdout(io.StringIO()), contextlib.redirect_stderr(io.StringIO()):
            it=run_impl(argtext,new,flags)
    except Exception as e: it="EXC "+type(e).__name__+str(e)[:80]
    if mt!=it:
        bad+=1
        if bad<8: print("DIFF arg",repr(argtext),"new",new,"flags",sorted(flags),"\n   model",repr(mt),"\n   impl ",repr(it))
print("cases",N,"bad",bad)
