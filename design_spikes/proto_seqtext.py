"""Throw-away: Appendix C (text-level generic_sequence_update) + AST-level sequence assign vs the real rewritten text,
for list/tuple displays with arbitrary layout (comments, newlines, trailing commas, parenthesised elements)."""
import sys, random, tempfile, pathlib, io, contextlib, ast, shutil, tokenize
sys.path.insert(0, "/repo/src"); sys.path.insert(0,"/tmp/t9")
from proto_seq import align, add_x, CATS
from inline_snapshot._global_state import snapshot_env
from inline_snapshot._flags import Flags
from inline_snapshot._change import apply_all
from inline_snapshot._rewrite_code import ChangeRecorder
from inline_snapshot._external import DiscStorage
import inline_snapshot._config as _config

def render(old, tup, rng):
    """returns argument text and element spans (char offsets within the text) for node tokens"""
    gapws=lambda: rng.choice([""," ","  ","\n        "," # c\n        ","\t"])
    t = "(" if tup else "["
    t += gapws(); spans=[]
    for k,(sp,v,can,paren) in enumerate(old):
        if paren: t+="("+rng.choice([""," "])
        a=len(t); t+=sp; b=len(t); spans.append((a,b))
        if paren: t+=rng.choice([""," "])+")"
        last = k==len(old)-1
        if not last: t+=gapws()+","+gapws()
        else:
            if (tup and len(old)==1) or rng.random()<0.4: t+=gapws()+","
            t+=gapws()
    t += ")" if tup else "]"
    return t, spans

def seq_update(text, open_end, close_start, entries, ins, is_tuple):
    """Appendix C. entries: list of None|(a,b). returns new text"""
    reps=[]; last=open_end; newc=[]; deleted=False; start=True; count=0
    for i,e in enumerate(entries):
        if i in ins: newc+=ins[i]
        if e is None: deleted=True
        else:
            a,b=e; count+=len(newc)+1
            if deleted or newc:
                code=""
                if newc: code=", ".join(newc)+", "
                if not start: code=", "+code
                reps.append((last,a,code))
            newc=[]; deleted=False; last=b; start=False
    n=len(entries)
    if n in ins: newc+=ins[n]; count+=len(newc)
    if newc or deleted or count==1 or n<=1:
        code=", ".join(newc)
        if not start and code: code=", "+code
        if count==1 and is_tuple: code+=","
        reps.append((last,close_start,code))
    out=[];p=0
    for a,b,c in sorted(reps):
        out.append(text[p:a]); out.append(c); p=b
    out.append(text[p:]); return "".join(out)

def model_text(argtext, spans, old, new, approved, tup):
    script=add_x(align([v for _,v,_,_ in old], new))
    oi=ni=0; entries=[]; ins={}; leafrep=[]
    for c in script:
        if c in 'mx':
            sp,v,can,_=old[oi]; nv=new[ni]
            if v!=nv:
                if 'fix' in approved: leafrep.append((spans[oi],str(nv)))
            elif not can:
                if 'update' in approved: leafrep.append((spans[oi],str(nv)))
            entries.append(spans[oi]); oi+=1; ni+=1
        elif c=='i':
            if 'fix' in approved: ins.setdefault(oi,[]).append(str(new[ni]))
            ni+=1
        else:
            entries.append(None if 'fix' in approved else spans[oi]); oi+=1
    structural = ('fix' in approved) and any(c in 'id' for c in script)
    text=argtext
    # apply leaf replacements and sequence update on the same original text (non overlapping)
    reps=[(a,b,code) for (a,b),code in leafrep]
    if structural:
        t2=seq_update(argtext,1,len(argtext)-1,entries,ins,tup)
        # recompute as replacement list: easier: apply seq_update on text with leaf replacements marked — do two-step via placeholder
        # leaf replacements never touch gaps, so apply them to argtext first while shifting spans
        shift=0; newspans=list(entries); txt=argtext
        for (a,b),code in sorted(leafrep):
            txt=txt[:a+shift]+code+txt[b+shift:]
            d=len(code)-(b-a)
            newspans=[None if e is None else ((e[0]+ (d if e[0]>=b+shift- (0) and e[0]>a+shift else 0), e[1]+(d if e[1]>=b+shift else 0))) for e in newspans]
            shift+=d
        # simpler and safer: recompute entries on shifted text
        return None
    out=[];p=0
    for a,b,c in sorted(reps):
        out.append(text[p:a]); out.append(c); p=b
    out.append(text[p:]); return "".join(out)

def model_text2(argtext, spans, old, new, approved, tup):
    """single pass: collect all replacements (leaf + gaps) on original offsets"""
    script=add_x(align([v for _,v,_,_ in old], new))
    oi=ni=0; entries=[]; ins={}; reps=[]
    for c in script:
        if c in 'mx':
            sp,v,can,_=old[oi]; nv=new[ni]
            if (v!=nv and 'fix' in approved) or (v==nv and not can and 'update' in approved):
                reps.append((spans[oi][0],spans[oi][1],str(nv)))
            entries.append(spans[oi]); oi+=1; ni+=1
        elif c=='i':
            if 'fix' in approved: ins.setdefault(oi,[]).append(str(new[ni]))
            ni+=1
        else:
            entries.append(None if 'fix' in approved else spans[oi]); oi+=1
    if ('fix' in approved) and any(c in 'id' for c in script):
        # inline Appendix C producing replacements
        last=1; newc=[]; deleted=False; start=True; count=0; close=len(argtext)-1
        for i,e in enumerate(entries):
            if i in ins: newc+=ins[i]
            if e is None: deleted=True
            else:
                a,b=e; count+=len(newc)+1
                if deleted or newc:
                    code=""
                    if newc: code=", ".join(newc)+", "
                    if not start: code=", "+code
                    reps.append((last,a,code))
                newc=[]; deleted=False; last=b; start=False
        n=len(entries)
        if n in ins: newc+=ins[n]; count+=len(newc)
        if newc or deleted or count==1 or n<=1:
            code=", ".join(newc)
            if not start and code: code=", "+code
            if count==1 and tup: code+=","
            reps.append((last,close,code))
    out=[];p=0
    for a,b,c in sorted(reps):
        out.append(argtext[p:a]); out.append(c); p=b
    out.append(argtext[p:]); return "".join(out)

def run_impl(argtext, new, flags, tup):
    d = pathlib.Path(tempfile.mkdtemp(prefix="proto_"))
    val=tuple(new) if tup else list(new)
    pre=f"from inline_snapshot import snapshot\ndef test_a():\n    assert {val!r} == snapshot("
    f = d/"test_a.py"; f.write_text(pre+argtext+")\n")
    _config.config = _config.Config(); g={}
    with snapshot_env() as state:
        state.update_flags = Flags(set(flags)); state.storage = DiscStorage(d/".storage")
        try:
            exec(compile(f.read_text(), str(f), "exec"), g)
            try: g["test_a"]()
            except AssertionError: pass
        finally: state.active=False
        changes=[]
        for s in state.snapshots.values(): changes += list(s._changes())
        rec=ChangeRecorder(); apply_all([c for c in changes if c.flag in flags], rec); rec.fix_all()
    src=f.read_text(); shutil.rmtree(d)
    assert src.startswith(pre) and src.endswith(")\n"), src
    return src[len(pre):-2]

rng=random.Random(int(sys.argv[1]) if len(sys.argv)>1 else 0); N=int(sys.argv[2]) if len(sys.argv)>2 else 300
PAREN=float(sys.argv[3]) if len(sys.argv)>3 else 0.0
bad=0; broken=0
for i in range(N):
    K=rng.choice([2,3]); old=[]
    for _ in range(rng.randint(0,5)):
        v=rng.randrange(K); can=rng.random()<0.5
        old.append((str(v) if can else f"0+{v}",v,can,rng.random()<PAREN))
    new=[rng.randrange(K) for _ in range(rng.randint(0,5))]
    flags={c for c in CATS if rng.random()<0.5}; tup=rng.random()<0.4
    argtext,spans=render(old,tup,rng)
    try: ast.parse("x="+argtext)
    except SyntaxError: continue
    mt=model_text2(argtext,spans,old,new,flags,tup)
    try:
        with contextlib.redirect_stdout(io.StringIO()), contextlib.redirect_stderr(io.StringIO()):
            it=run_impl(argtext,new,flags,tup)
    except Exception as e:
        it="EXC "+type(e).__name__
    ok_parse=True
    try: ast.parse("x="+mt)
    except SyntaxError: ok_parse=False; broken+=1
    if mt!=it:
        bad+=1
        if bad<8: print("DIFF arg",repr(argtext),"new",new,"flags",sorted(flags),"\n   model",repr(mt),"\n   impl ",repr(it))
print("cases",N,"bad",bad,"model-predicted-unparsable",broken)
