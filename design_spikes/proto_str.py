"""Throw-away: my transcription of repr(str) + map_string/triple_quote vs the real value_to_token."""
import sys, random, itertools
sys.path.insert(0,"/repo/src")
from inline_snapshot._utils import value_to_token

def py_repr(cps, printable):
    sq = 39 in cps; dq = 34 in cps
    q = 34 if (sq and not dq) else 39
    out=[q]
    for c in cps:
        if c==q or c==92: out += [92,c]
        elif c==9: out += [92,ord('t')]
        elif c==10: out += [92,ord('n')]
        elif c==13: out += [92,ord('r')]
        elif c<32 or c==0x7f: out += [ord(ch) for ch in "\\x%02x"%c]
        elif c<0x7f: out.append(c)
        elif printable(c): out.append(c)
        elif c<=0xff: out += [ord(ch) for ch in "\\x%02x"%c]
        elif c<=0xffff: out += [ord(ch) for ch in "\\u%04x"%c]
        else: out += [ord(ch) for ch in "\\U%08x"%c]
    out.append(q); return out

def unicode_escape(c):
    if c==92: return "\\\\"
    if c==9: return "\\t"
    if c==10: return "\\n"
    if c==13: return "\\r"
    if c<32 or 0x7f<=c<=0xff: return "\\x%02x"%c
    if c<0x7f: return chr(c)
    if c<=0xffff: return "\\u%04x"%c
    return "\\U%08x"%c

def helper(cps, printable):
    s3 = lambda q: any(cps[i:i+3]==[q]*3 for i in range(len(cps)))
    extra=None
    if s3(39) and s3(34):
        extra = 34 if cps.count(39)>=cps.count(34) else 39
    esc=[]
    for c in cps:
        if c in (10,9): esc.append(chr(c))
        elif c==92 or not printable(c): esc.append(unicode_escape(c))
        elif c==extra: esc.append("\\"+chr(c))
        else: esc.append(chr(c))
    e="".join(esc)
    poss=[q for q in ['"""',"'''"] if q not in e]
    if e:
        poss.sort(key=lambda q: q[0]==e[-1])
        if poss[0][0]==e[-1]:
            e=e[:-1]+"\\"+e[-1]
    return e,poss

def triple(cps, printable):
    e,poss=helper(cps,printable); q=poss[0]
    e=e.replace(" \n"," \\n\\\n")
    e="\\\n"+e
    if not e.endswith("\n"): e+="\\\n"
    return q+e+q

def model_literal(cps, printable):
    n=cps.count(10)
    if (n>=1 and cps[-1]!=10) or n>1: return triple(cps,printable)
    return "".join(map(chr,py_repr(cps,printable)))

ALPH=[39,34,92,10,13,32,9,ord('a'),0,0x7f,0xe9,0xa0,0x2028,0xd800,0x1f40d,ord('{')]
pr=lambda c: chr(c).isprintable()
rng=random.Random(int(sys.argv[1]) if len(sys.argv)>1 else 0)
bad=0; n=0
def check(cps):
    global bad,n
    n+=1
    s="".join(map(chr,cps))
    try:
        toks=value_to_token(s)
        impl=toks[0].string
    except Exception as ex:
        impl="EXC "+type(ex).__name__
    try: mod=model_literal(cps,pr)
    except Exception as ex: mod="MEXC "+type(ex).__name__+str(ex)
    if impl!=mod:
        bad+=1
        if bad<15: print("DIFF",cps,"\n  impl",repr(impl),"\n  model",repr(mod))
for L in range(0,4):
    for cps in itertools.product(ALPH,repeat=L): check(list(cps))
for _ in range(20000):
    check([rng.choice(ALPH) for _ in range(rng.randint(4,30))])
print("strings",n,"bad",bad)
