namespace AlignSpec

inductive Dir | e | i | d | m
deriving DecidableEq, Repr

abbrev Cell := Nat × Dir

def pick (eq : Bool) (la lc lb : Nat) : Cell :=
  if eq && decide (lc + 1 ≥ la) && decide (lc + 1 ≥ lb) then (lc + 1, .m)
  else if la ≥ lb then (la, .i) else (lb, .d)

def cell (E : Nat → Nat → Bool) : Nat → Nat → Cell
  | 0, 0 => (0, .e)
  | 0, _+1 => (0, .i)
  | _+1, 0 => (0, .d)
  | i+1, j+1 => pick (E i j) (cell E (i+1) j).1 (cell E i j).1 (cell E i (j+1)).1
termination_by i j => (i, j)

def back (E : Nat → Nat → Bool) : Nat → Nat → Nat → List Dir → List Dir
  | 0, _, _, acc => acc
  | fuel+1, ai, bi, acc =>
    match (cell E ai bi).2 with
    | .e => acc
    | .m => back E fuel (ai-1) (bi-1) (.m :: acc)
    | .i => back E fuel ai (bi-1) (.i :: acc)
    | .d => back E fuel (ai-1) bi (.d :: acc)

inductive Valid (E : Nat → Nat → Bool) : Nat → Nat → List Dir → Prop
  | nil : Valid E 0 0 []
  | m {i j s} : Valid E i j s → E i j = true → Valid E (i+1) (j+1) (s ++ [.m])
  | i {i j s} : Valid E i j s → Valid E i (j+1) (s ++ [.i])
  | d {i j s} : Valid E i j s → Valid E (i+1) j (s ++ [.d])

theorem pick_dir_m {eq la lc lb} (h : (pick eq la lc lb).2 = .m) : eq = true := by
  unfold pick at h
  split at h
  · rename_i hc; simp at hc; exact hc.1.1
  · split at h <;> simp at h

theorem cell_dir (E : Nat → Nat → Bool) (i j : Nat) :
    match (cell E i j).2 with
    | .e => i = 0 ∧ j = 0
    | .m => ∃ i' j', i = i'+1 ∧ j = j'+1 ∧ E i' j' = true
    | .i => ∃ j', j = j'+1
    | .d => ∃ i', i = i'+1 := by
  match i, j with
  | 0, 0 => simp [cell]
  | 0, j+1 => simp [cell]
  | i+1, 0 => simp [cell]
  | i+1, j+1 =>
    rw [cell]
    generalize hp : pick (E i j) (cell E (i+1) j).1 (cell E i j).1 (cell E i (j+1)).1 = p
    rcases p with ⟨sc, dir⟩
    cases dir with
    | e => simp [pick] at hp; split at hp <;> (try split at hp) <;> simp at hp
    | m => exact ⟨i, j, rfl, rfl, pick_dir_m (by rw [hp])⟩
    | i => exact ⟨j, rfl⟩
    | d => exact ⟨i, rfl⟩

theorem back_valid (E : Nat → Nat → Bool) :
    ∀ fuel ai bi acc, ai + bi + 1 ≤ fuel →
      ∃ s, back E fuel ai bi acc = s ++ acc ∧ Valid E ai bi s := by
  intro fuel
  induction fuel with
  | zero => intro ai bi acc h; omega
  | succ fuel ih =>
    intro ai bi acc h
    have hd := cell_dir E ai bi
    unfold back
    generalize hc : (cell E ai bi).2 = dir at hd
    cases dir with
    | e =>
      obtain ⟨rfl, rfl⟩ := hd
      exact ⟨[], by simp, Valid.nil⟩
    | m =>
      obtain ⟨i', j', rfl, rfl, hE⟩ := hd
      obtain ⟨s, hs, hv⟩ := ih i' j' (.m :: acc) (by omega)
      refine ⟨s ++ [.m], ?_, Valid.m hv hE⟩
      simp [hs]
    | i =>
      obtain ⟨j', rfl⟩ := hd
      obtain ⟨s, hs, hv⟩ := ih ai j' (.i :: acc) (by omega)
      refine ⟨s ++ [.i], ?_, Valid.i hv⟩
      simp [hs]
    | d =>
      obtain ⟨i', rfl⟩ := hd
      obtain ⟨s, hs, hv⟩ := ih i' bi (.d :: acc) (by omega)
      refine ⟨s ++ [.d], ?_, Valid.d hv⟩
      simp [hs]

#print axioms back_valid
end AlignSpec
