"""Throw-away: Appendix B gate (python transcription) vs real pytest sessions."""
import sys, os, random, subprocess, tempfile, pathlib, shutil, itertools, json
from concurrent.futures import ThreadPoolExecutor
CATS=["create","fix","trim","update"]
SRC = """from inline_snapshot import snapshot
import pytest

def test_create():
    assert 5 == snapshot()

def test_fix():
    assert 5 == snapshot(4)

def test_trim():
    assert 2 <= snapshot(8)

def test_update():
    assert 5 == snapshot(0+5)
"""
AFTER={"create":("snapshot()","snapshot(5)"),"fix":("snapshot(4)","snapshot(5)"),"trim":("snapshot(8)","snapshot(2)"),"update":("snapshot(0+5)","snapshot(5)")}
CI_VARS=["CI","bamboo.buildKey","BUILD_ID","BUILD_NUMBER","BUILDKITE","CIRCLECI","CONTINUOUS_INTEGRATION","GITHUB_ACTIONS","HUDSON_URL","JENKINS_URL","TEAMCITY_VERSION","TRAVIS","PYCHARM_HOSTED","INLINE_SNAPSHOT_DEFAULT_FLAGS","PYTEST_ADDOPTS","FORCE_COLOR","NO_COLOR"]

def model(cfg):
    """returns ('error',) or ('ok', applied set)"""
    cli, env, pyd, tty, ci, xdist, answers, shortcut = cfg["cli"], cfg["env"], cfg["pyproject_default"], cfg["tty"], cfg["ci"], cfg["xdist"], cfg["answers"], cfg.get("shortcut")
    default = ["report"]; tui=["create","review"]      # pytest compatible (3.12)
    if pyd is not None: default = pyd
    if cli is None and shortcut is None:
        d = tui if tty else default
        if env is not None: d = env.split(",")
        flags=set(d)
    else:
        raw = cli if cli is not None else {"fix":"create,fix","review":"review"}[shortcut]
        flags={f for f in raw.split(",") if f}
        if xdist and flags-{"disable"}: return ("error",)
    if flags - set(CATS) - {"disable","review","report","short-report"}: return ("error",)
    if "disable" in flags and flags!={"disable"}: return ("error",)
    if xdist or ci: return ("ok",set())
    active = True if "review" in flags else ("disable" not in flags)
    if not active: return ("ok",set())
    if "short-report" in flags: return ("ok",set())
    applied=set(); ans=list(answers)
    for c in CATS:
        if not ({"review","report",c} & flags): continue
        if c in flags: applied.add(c)
        elif "review" in flags:
            a = ans.pop(0) if ans else None
            if a is None: return ("crash", applied)   # EOF on stdin
            if a=="y": applied.add(c)
    return ("ok",applied)

def run(cfg):
    d=pathlib.Path(tempfile.mkdtemp(prefix="gate_"))
    (d/"test_a.py").write_text(SRC)
    py="[tool.inline-snapshot]\n"
    if cfg["pyproject_default"] is not None: py+="default-flags=%s\n"%json.dumps(cfg["pyproject_default"])
    (d/"pyproject.toml").write_text(py)
    env=dict(os.environ)
    for v in CI_VARS: env.pop(v,None)
    env["TERM"]="unknown"; env["COLUMNS"]="80"; env["PYTHONPATH"]="/repo/src"
    if cfg["ci"]: env["GITHUB_ACTIONS"]="true"
    if cfg["tty"]: env["FORCE_COLOR"]="true"
    if cfg["env"] is not None: env["INLINE_SNAPSHOT_DEFAULT_FLAGS"]=cfg["env"]
    cmd=[sys.executable,"-m","pytest","-q","-p","no:cacheprovider"]
    if cfg["cli"] is not None: cmd.append("--inline-snapshot="+cfg["cli"])
    if cfg.get("shortcut"): cmd.append("--"+cfg["shortcut"])
    if cfg["xdist"]: cmd+=["-n","2"]
    stdin="".join(a+"\n" for a in cfg["answers"]).encode()
    r=subprocess.run(cmd,cwd=d,env=env,capture_output=True,input=stdin)
    new=(d/"test_a.py").read_text(); shutil.rmtree(d)
    err = r.returncode==4 or b"UsageError" in r.stderr or b"ERROR: --inline-snapshot" in r.stderr
    if err and new==SRC and r.returncode==4: return ("error",)
    applied={c for c in CATS if AFTER[c][0] not in new.replace("snapshot(0+5)","@@") .replace("@@","snapshot(0+5)") or False}
    applied=set()
    for c in CATS:
        before,after=AFTER[c]
        # identify by test function body
        body=new.split("def test_%s():"%c)[1].split("def test_")[0]
        if after in body and before not in body: applied.add(c)
    crash = b"Traceback" in r.stderr
    return ("crash" if crash else "ok", applied)

rng=random.Random(int(sys.argv[1]) if len(sys.argv)>1 else 0); N=int(sys.argv[2]) if len(sys.argv)>2 else 96
cfgs=[]
for i in range(N):
    cats=[c for c in CATS if rng.random()<0.4]
    mode=rng.choice([[],["report"],["review"],["short-report"],["disable"],[]])
    how=rng.choice(["cli","cli","env","pyproject","none","shortcut"])
    fl=",".join(rng.sample(cats+mode,len(cats+mode)))
    cfg=dict(cli=None,env=None,pyproject_default=None,tty=rng.random()<0.2,ci=rng.random()<0.1,xdist=rng.random()<0.1,answers=[rng.choice("yn") for _ in range(4)],shortcut=None)
    if how=="cli": cfg["cli"]=fl
    elif how=="env": cfg["env"]=fl; 
    elif how=="pyproject": cfg["pyproject_default"]=[f for f in fl.split(",") if f]
    elif how=="shortcut": cfg["shortcut"]=rng.choice(["fix","review"])
    if how in("env","pyproject") and rng.random()<0.3: cfg["cli"]=",".join(rng.sample(CATS,2))
    cfgs.append(cfg)
with ThreadPoolExecutor(16) as ex: res=list(ex.map(run,cfgs))
bad=0
for cfg,r in zip(cfgs,res):
    m=model(cfg)
    if cfg["xdist"] and cfg["cli"] is None and cfg["shortcut"] is None: continue   # known: workers are active
    if m!=r:
        bad+=1; print("DIFF",cfg,"\n   model",m,"\n   impl ",r)
print("sessions",N,"bad",bad)
