"""Throw-away: align/add_x/sequence assign + apply (AST level) vs real implementation, lists & tuples of ints."""
import sys, random, tempfile, pathlib, io, contextlib, ast, shutil, tokenize
sys.path.insert(0, "/repo/src")
from inline_snapshot._global_state import snapshot_env
from inline_snapshot._flags import Flags
from inline_snapshot._change import apply_all
from inline_snapshot._rewrite_code import ChangeRecorder
from inline_snapshot._external import DiscStorage
import inline_snapshot._config as _config
CATS=["create","fix","trim","update"]

def pick(eq,la,lc,lb):
    if eq and lc+1>=la and lc+1>=lb: return (lc+1,'m')
    return (la,'i') if la>=lb else (lb,'d')
def nw(E,n,m):
    M=[[(0,'e')]+[(0,'i')]*m]
    for i in range(n):
        row=[(0,'d')]
        for j in range(m):
            row.append(pick(E(i,j),row[-1][0],M[-1][j][0],M[-1][j+1][0]))
        M.append(row)
    ai,bi,t=n,m,''
    while True:
        d=M[ai][bi][1]
        if d=='e': break
        t+=d
        if d=='m': ai-=1;bi-=1
        elif d=='i': bi-=1
        else: ai-=1
    return t[::-1]
def align(a,b):
    s=0
    while s<len(a) and s<len(b) and a[s]==b[s]: s+=1
    if s==len(a)==len(b): return 'm'*s
    a2,b2=a[s:],b[s:]; e=0
    while e<len(a2) and e<len(b2) and a2[-1-e]==b2[-1-e]: e+=1
    A=a[s:len(a)-e]; B=b[s:len(b)-e]
    return 'm'*s+nw(lambda i,j:A[i]==B[j],len(A),len(B))+'m'*e
def add_x(t):
    groups=[]
    for c in t:
        if groups and groups[-1][0]==c: groups[-1][1]+=1
        else: groups.append([c,1])
    i=0;r=''
    while i<len(groups):
        g=groups[i]
        if i==len(groups)-1: r+=g[0]*g[1]; break
        ng=groups[i+1]
        if g[0]=='d' and ng[0]=='i' and g[1]==ng[1]: r+='x'*g[1]; i+=1
        else: r+=g[0]*g[1]
        i+=1
    return r

def model(old, new, approved):
    """old: list of (spelling, value, canonical) ; returns (cats, final spellings)"""
    script=add_x(align([v for _,v,_ in old], new))
    oi=0; ni=0; out=[]; cats=set()
    for c in script:
        if c in 'mx':
            sp,v,can=old[oi]; nv=new[ni]; oi+=1; ni+=1
            if v!=nv:
                cats.add('fix'); out.append(str(nv) if 'fix' in approved else sp)
            elif not can:
                cats.add('update'); out.append(str(nv) if 'update' in approved else sp)
            else: out.append(sp)
        elif c=='i':
            cats.add('fix')
            if 'fix' in approved: out.append(str(new[ni]))
            ni+=1
        else:
            cats.add('fix')
            if 'fix' not in approved: out.append(old[oi][0])
            oi+=1
    return cats,out,script

def run_impl(old, new, flags, tup):
    d = pathlib.Path(tempfile.mkdtemp(prefix="proto_"))
    inner=", ".join(sp for sp,_,_ in old)
    if tup: arg="("+inner+("," if len(old)==1 else "")+")"; val=tuple(new)
    else: arg="["+inner+"]"; val=list(new)
    f = d/"test_a.py"; f.write_text(f"from inline_snapshot import snapshot\ndef test_a():\n    assert {val!r} == snapshot({arg})\n")
    _config.config = _config.Config(); g={}
    with snapshot_env() as state:
        state.update_flags = Flags(set(flags)); state.storage = DiscStorage(d/".storage")
        try:
            exec(compile(f.read_text(), str(f), "exec"), g)
            try: g["test_a"]()
            except AssertionError: pass
        finally: state.active=False
        changes=[]
        for s in state.snapshots.values(): changes += list(s._changes())
        cats={c.flag for c in changes}
        rec=ChangeRecorder(); apply_all([c for c in changes if c.flag in flags], rec); rec.fix_all()
    src=f.read_text(); tree=ast.parse(src)
    call=[n for n in ast.walk(tree) if isinstance(n,ast.Call) and getattr(n.func,'id',None)=="snapshot"][0]
    node=call.args[0]
    elts=[ast.get_source_segment(src,e).replace(" ","") for e in node.elts]
    kind='tuple' if isinstance(node,ast.Tuple) else 'list'
    shutil.rmtree(d)
    return cats,elts,kind

rng=random.Random(int(sys.argv[1]) if len(sys.argv)>1 else 0); N=int(sys.argv[2]) if len(sys.argv)>2 else 300; bad=0
hist={}
for i in range(N):
    K=rng.choice([2,3])
    old=[]
    for _ in range(rng.randint(0,6)):
        v=rng.randrange(K)
        old.append((str(v),v,True) if rng.random()<0.5 else (f"0+{v}",v,False))
    new=[rng.randrange(K) for _ in range(rng.randint(0,6))]
    flags={c for c in CATS if rng.random()<0.4}; tup=rng.random()<0.4
    mc,mo,script=model(old,new,flags)
    for ch in set(script): hist[ch]=hist.get(ch,0)+1
    try:
        with contextlib.redirect_stdout(io.StringIO()), contextlib.redirect_stderr(io.StringIO()):
            ic,io_,kind=run_impl(old,new,flags,tup)
    except Exception as e:
        print("IMPL-EXC",old,new,flags,tup,type(e).__name__,e); bad+=1; continue
    if (mc,mo)!=(ic,io_) or kind!=('tuple' if tup else 'list'):
        bad+=1; print("DIFF old",[s for s,_,_ in old],"new",new,"flags",sorted(flags),"tup",tup,"script",script); print("   model",mc,mo); print("   impl ",ic,io_,kind)
print("cases",N,"bad",bad,"script letters",hist)
