"""Throw-away: Dict (sub-snapshot) rules vs real implementation. children compared with == or <=."""
import sys, random, tempfile, pathlib, io, contextlib, ast, shutil
sys.path.insert(0, "/repo/src"); sys.path.insert(0,"/tmp/t5")
from proto_site import M, CATS
from inline_snapshot._global_state import snapshot_env
from inline_snapshot._flags import Flags
from inline_snapshot._change import apply_all
from inline_snapshot._rewrite_code import ChangeRecorder
from inline_snapshot._external import DiscStorage
import inline_snapshot._config as _config

class D:
    def __init__(self, old, flags):
        self.old, self.f, self.new = old, flags, None
        self.missing=self.incorrect=0
    def get(self,k):
        if self.new is None: self.new={}
        if k not in self.new:
            ov=self.old
            if ov is None: self.missing+=1; ov={}
            self.new[k]=M(ov.get(k), self.f)
        return self.new[k]
    def counters(self):
        return self.missing+sum(c.missing for c in (self.new or {}).values()), self.incorrect+sum(c.incorrect for c in (self.new or {}).values())
    def cats(self):
        if self.new is None: return set()
        if self.old is None:
            return {"create"} if any(c.kind is not None for c in self.new.values()) else set()
        c=set()
        for k in self.old:
            if k in self.new: c |= self.new[k].cats()
            else: c.add("trim")
        if any(k not in self.old and ch.kind is not None for k,ch in self.new.items()): c.add("create")
        return c
    def final(self, approved):
        if self.new is None: return self.old
        if self.old is None:
            if "create" in approved and any(c.kind is not None for c in self.new.values()):
                return {k:c.new for k,c in self.new.items() if c.kind is not None}
            return None
        r={}
        for k,v in self.old.items():
            if k in self.new: r[k]=self.new[k].final(approved)
            elif "trim" not in approved: r[k]=v
        if "create" in approved:
            for k,ch in self.new.items():
                if k not in self.old and ch.kind is not None: r[k]=ch.new
        return r

def run_impl(old, events, flags):
    d = pathlib.Path(tempfile.mkdtemp(prefix="proto_"))
    arg = "" if old is None else repr(old)
    lines = ["from inline_snapshot import snapshot","R=[]","def test_a():",f"    for k,op,x in {events!r}:",f"        s = snapshot({arg})",
             "        try: R.append(bool(x == s[k]) if op=='eq' else bool(x <= s[k]))",
             "        except TypeError: R.append('TypeError')"]
    f = d/"test_a.py"; f.write_text("\n".join(lines)+"\n")
    _config.config = _config.Config(); g={}
    with snapshot_env() as state:
        state.update_flags = Flags(set(flags)); state.storage = DiscStorage(d/".storage")
        try:
            exec(compile(f.read_text(), str(f), "exec"), g); g["test_a"]()
        finally: state.active=False
        miss, inc = state.missing_values, state.incorrect_values
        changes=[]
        for s in state.snapshots.values(): changes += list(s._changes())
        cats={c.flag for c in changes}
        rec=ChangeRecorder(); apply_all([c for c in changes if c.flag in flags], rec); rec.fix_all()
    tree=ast.parse(f.read_text())
    call=[n for n in ast.walk(tree) if isinstance(n,ast.Call) and getattr(n.func,'id',None)=="snapshot"][0]
    final = ast.literal_eval(call.args[0]) if call.args else None
    shutil.rmtree(d)
    return g["R"], miss, inc, cats, final

rng=random.Random(int(sys.argv[1]) if len(sys.argv)>1 else 0); N=int(sys.argv[2]) if len(sys.argv)>2 else 300; bad=0
for i in range(N):
    keys=["a","b","c"]
    old=rng.choice([None]+[{k:rng.randint(0,3) for k in rng.sample(keys,rng.randint(0,3))} for _ in range(3)])
    kop={k:rng.choice(["eq","ge"]) for k in keys}
    kval={k:rng.randint(0,3) for k in keys}
    events=[]
    for _ in range(rng.randint(1,5)):
        k=rng.choice(keys); x=kval[k] if (kop[k]=="eq" and rng.random()<0.8) else rng.randint(0,3)
        events.append((k,kop[k],x))
    flags={c for c in CATS if rng.random()<0.35}
    m=D(None if old is None else dict(old), flags)
    mr=[m.get(k).op(op,x) for k,op,x in events]
    mm,mi=m.counters()
    try:
        with contextlib.redirect_stdout(io.StringIO()), contextlib.redirect_stderr(io.StringIO()):
            io_=run_impl(old,events,flags)
    except Exception as e:
        print("IMPL-EXC",old,events,flags,type(e).__name__,e); bad+=1; continue
    mo=(mr,mm,mi,m.cats(),m.final(flags))
    if mo!=io_:
        bad+=1; print("DIFF old",old,"events",events,"flags",sorted(flags)); print("   model",mo); print("   impl ",io_)
print("cases",N,"bad",bad)
