import subprocess, sys, os, pathlib, shutil, tempfile
def session(files, flags, extra_env=None, stdin=None):
    d = pathlib.Path(tempfile.mkdtemp(prefix="isp_"))
    for n,c in files.items():
        (d/n).parent.mkdir(parents=True, exist_ok=True)
        if isinstance(c,str): c=c.encode()
        (d/n).write_bytes(c)
    env = dict(os.environ); env.pop("CI",None); env["TERM"]="unknown"; env["COLUMNS"]="80"
    if extra_env: env.update(extra_env)
    r = subprocess.run([sys.executable,"-m","pytest","-q","-p","no:cacheprovider",f"--inline-snapshot={flags}"],cwd=d,env=env,capture_output=True,input=stdin)
    out = {p.relative_to(d).as_posix(): p.read_bytes() for p in d.rglob("*") if p.is_file() and "__pycache__" not in p.parts}
    shutil.rmtree(d)
    return r.returncode, r.stdout.decode()+'\n--STDERR--\n'+r.stderr.decode(), out


