#!/bin/bash
# usage: tools/seeded_harvest_wt.sh C05c C05 /tmp/seed4_C05
# Harvest an independently seeded change into seeded/<id>/ and run the property's quick check against the scratch
# worktree itself (VERIF_REPO) from a private copy of /verif, so that neither /repo nor /verif/evidence is touched
# (use this while something else is running against /repo; tools/seeded_check.sh re-validates against /repo later).
ID=$1; PROP=$2; WT=$3
V=/verif; COPY=$(mktemp -d /tmp/verif_copy.XXXXXX)
rsync -a --exclude .git --exclude evidence $V/ $COPY/ ; mkdir -p $COPY/evidence
mkdir -p $V/seeded/$ID
git -C $WT diff > $V/seeded/$ID/patch.diff
cp $WT/demo.py $WT/NOTES.md $V/seeded/$ID/ 2>/dev/null
[ -s $V/seeded/$ID/patch.diff ] || { echo "no patch in $WT"; rm -rf $COPY; exit 1; }
( cd /tmp && PYTHONPATH=$WT/src timeout 900 /venv/bin/python $V/seeded/$ID/demo.py > /tmp/hw_with.log 2>&1 ); with=$?
git -C $WT apply -R $V/seeded/$ID/patch.diff
( cd /tmp && PYTHONPATH=$WT/src timeout 900 /venv/bin/python $V/seeded/$ID/demo.py > /tmp/hw_without.log 2>&1 ); without=$?
git -C $WT apply $V/seeded/$ID/patch.diff
( cd $WT && PATH=/venv/bin:$PATH PYTHONPATH=$WT/src timeout 1800 /venv/bin/python -m pytest -q -p no:cacheprovider --timeout=900 --continue-on-collection-errors -n 6 --junitxml=/tmp/hw_suite.xml > /tmp/hw_suite.log 2>&1 )
missing=$(/venv/bin/python - <<'PY'
import json, xml.etree.ElementTree as ET
base=set(json.load(open('/root/.vp/BASELINE.json'))['stable_pass'])
ok=set()
for tc in ET.parse('/tmp/hw_suite.xml').iter('testcase'):
    if not any(c.tag in('failure','error','skipped') for c in tc): ok.add(tc.get('classname')+'::'+tc.get('name'))
print(len(base-ok), sorted(base-ok)[:5])
PY
)
out=$(cd $COPY && VERIF_REPO=$WT ./check $PROP --tier quick 2>&1); rc=$?
line="$PROP rc=$rc $(echo "$out" | grep VIOLATION | head -2 | sed "s#$COPY#/verif#g" | tr '\n' ' ')"
echo "$ID: demo without=$without with=$with; suite ($(tail -1 /tmp/hw_suite.log)) baseline tests not passing: $missing; $line"
/venv/bin/python - "$ID" "$PROP" "$without" "$with" "$missing" "$line" <<'PY'
import json, sys, os
i, prop, wo, wi, missing, line = sys.argv[1:7]
f=f"/verif/seeded/{i}/meta.json"
meta={"property": prop, "patch": "patch.diff", "demo": "demo.py", "demo_exit_without_change": int(wo), "demo_exit_with_change": int(wi),
      "suite_with_change_baseline_tests_not_passing": missing,
      "ran": ["demo.py without and with the change (PYTHONPATH = the scratch worktree)", "full pytest suite with the change (PATH=/venv/bin first), compared with BASELINE.json stable_pass",
              "first run: ./check from a private copy of /verif with VERIF_REPO = the scratch worktree"],
      "check_history": [[line]], "check_results": [line]}
if os.path.exists(f"/verif/seeded/{i}/NOTES.md"):
    meta["what_it_needs"]=open(f"/verif/seeded/{i}/NOTES.md").read()[:1500]
json.dump(meta, open(f,"w"), indent=1)
PY
rm -rf $COPY
