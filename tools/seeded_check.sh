#!/bin/bash
# usage: tools/seeded_check.sh C05 [checks...] — apply seeded/C05/patch.diff to /repo, run the demo and the checks, undo.
P=$1; shift
cd /verif
checks="${@:-${P:0:3}}"
( cd /tmp && PYTHONPATH=/repo/src timeout 600 /venv/bin/python /verif/seeded/$P/demo.py > /tmp/seed_demo_without.log 2>&1 ); without=$?
git -C /repo apply $PWD/seeded/$P/patch.diff || { echo "patch does not apply to /repo"; exit 1; }
( cd /tmp && PYTHONPATH=/repo/src timeout 600 /venv/bin/python /verif/seeded/$P/demo.py > /tmp/seed_demo_with.log 2>&1 ); with=$?
echo "demo on /repo: without change rc=$without, with change rc=$with"
results=""
for c in $checks; do
  out=$(./check $c --tier quick 2>&1); rc=$?
  line="$c rc=$rc $(echo "$out" | grep VIOLATION | head -2 | tr '\n' ' ')"
  echo "$line"; results="$results$line\n"
done
git -C /repo checkout -- .
git checkout -q -- evidence 2>/dev/null
/venv/bin/python - "$P" "$without" "$with" "$results" <<'PY'
import json, sys, os
p, wo, wi, results = sys.argv[1:5]
f=f"/verif/seeded/{p}/meta.json"
meta = json.load(open(f)) if os.path.exists(f) else {"property": p[:3], "patch": "patch.diff", "demo": "demo.py"}
meta["demo_exit_without_change_on_repo_head"] = int(wo); meta["demo_exit_with_change_on_repo_head"] = int(wi)
meta.setdefault("check_history", []).append([l for l in results.split("\\n") if l])
meta["check_results"] = [l for l in results.split("\\n") if l]
if "what_it_needs" not in meta and os.path.exists(f"/verif/seeded/{p}/NOTES.md"):
    meta["what_it_needs"] = open(f"/verif/seeded/{p}/NOTES.md").read()[:1500]
json.dump(meta, open(f, "w"), indent=1)
PY
