#!/bin/bash
# usage: tools/seeded_harvest.sh C10 [checks...] — copy patch/demo/notes from /tmp/seed_C10, run the suite with the
# change in the worktree (baseline comparison), then tools/seeded_check.sh
P=$1; shift
WT=${SEED_WT:-/tmp/seed_$P}          # round 2: SEED_WT=/tmp/seed2_C05 tools/seeded_harvest.sh C05b C05
cd /verif; mkdir -p seeded/$P
git -C $WT diff > seeded/$P/patch.diff
cp $WT/demo.py $WT/NOTES.md seeded/$P/ 2>/dev/null
[ -s seeded/$P/patch.diff ] || { echo "no patch in $WT"; exit 1; }
( cd $WT && PATH=/venv/bin:$PATH PYTHONPATH=$WT/src timeout 1500 /venv/bin/python -m pytest -q -p no:cacheprovider --timeout=900 --continue-on-collection-errors -n 12 --junitxml=/tmp/seed_suite_$P.xml > /tmp/seed_suite_$P.log 2>&1 )
missing=$(/venv/bin/python - $P <<'PY'
import json, sys, xml.etree.ElementTree as ET
base=set(json.load(open('/root/.vp/BASELINE.json'))['stable_pass'])
ok=set()
for tc in ET.parse(f'/tmp/seed_suite_{sys.argv[1]}.xml').iter('testcase'):
    if not any(c.tag in('failure','error','skipped') for c in tc): ok.add(tc.get('classname')+'::'+tc.get('name'))
print(len(base-ok), sorted(base-ok)[:5])
PY
)
echo "suite with change ($(tail -1 /tmp/seed_suite_$P.log)): baseline tests not passing: $missing"
/venv/bin/python - "$P" "$missing" <<'PY'
import json, sys, os
p, missing = sys.argv[1:3]
f=f"/verif/seeded/{p}/meta.json"
meta = json.load(open(f)) if os.path.exists(f) else {"property": p[:3], "patch": "patch.diff", "demo": "demo.py"}
meta["suite_with_change_baseline_tests_not_passing"] = missing
meta["ran"] = ["full pytest suite with the change in the scratch worktree (PATH=/venv/bin first), compared with BASELINE.json stable_pass",
               "demo.py against /repo HEAD without and with the patch", "git -C /repo apply patch.diff; ./check <id> --tier quick; git -C /repo checkout -- ."]
json.dump(meta, open(f, "w"), indent=1)
PY
tools/seeded_check.sh $P "$@"
