#!/bin/bash
# usage: tools/mutants.sh "<mutant glob>" C05 C07 ...   (development-time sensitivity sweep)
cd /verif
pat=$1; shift
for m in mutants/$pat.patch; do
  git -C /repo apply $PWD/$m || { echo "cannot apply $m"; continue; }
  for p in "$@"; do
    out=$(./check $p --tier quick 2>&1); rc=$?
    echo "$(basename $m .patch) $p rc=$rc $(echo "$out" | grep -c VIOLATION) violation lines; $(echo "$out" | grep VIOLATION | head -1)"
  done
  git -C /repo checkout -- .
done
git checkout -q -- evidence 2>/dev/null
