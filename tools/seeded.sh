#!/bin/bash
# usage: tools/seeded.sh C05 [checks...]   — harvest the seeded change from /tmp/seed_C05, confirm demo before/after
# and the suite, store it under seeded/C05/, then run the given checks (default: the property's own) against it.
set -u
P=$1; shift
WT=/tmp/seed_$P
cd /verif
mkdir -p seeded/$P
git -C $WT diff > seeded/$P/patch.diff
cp $WT/demo.py seeded/$P/demo.py 2>/dev/null
cp $WT/NOTES.md seeded/$P/NOTES.md 2>/dev/null
[ -s seeded/$P/patch.diff ] || { echo "no patch in $WT"; exit 1; }
# demo with the change
( cd $WT && PYTHONPATH=$WT/src timeout 600 /venv/bin/python $WT/demo.py > /tmp/seed_demo_with.log 2>&1 ); with=$?
git -C $WT apply -R $PWD/seeded/$P/patch.diff      # (no git stash: the stash is shared between worktrees)
( cd $WT && PYTHONPATH=$WT/src timeout 600 /venv/bin/python $WT/demo.py > /tmp/seed_demo_without.log 2>&1 ); without=$?
git -C $WT apply $PWD/seeded/$P/patch.diff
echo "demo: without change rc=$without, with change rc=$with"
# suite with the change: baseline tests must still pass
( cd $WT && PYTHONPATH=$WT/src timeout 1500 /venv/bin/python -m pytest -q -p no:cacheprovider --timeout=900 --continue-on-collection-errors -n 12 --junitxml=/tmp/seed_suite.xml > /tmp/seed_suite.log 2>&1 )
missing=$(/venv/bin/python - <<'PY'
import json, xml.etree.ElementTree as ET
base=set(json.load(open('/root/.vp/BASELINE.json'))['stable_pass'])
ok=set()
for tc in ET.parse('/tmp/seed_suite.xml').iter('testcase'):
    if not any(c.tag in('failure','error','skipped') for c in tc): ok.add(tc.get('classname')+'::'+tc.get('name'))
print(len(base-ok), sorted(base-ok)[:5])
PY
)
echo "suite with change: baseline tests not passing: $missing"
checks="${@:-$P}"
git -C /repo apply $PWD/seeded/$P/patch.diff || { echo "patch does not apply to /repo"; exit 1; }
results=""
for c in $checks; do
  out=$(./check $c --tier quick 2>&1); rc=$?
  line="$c rc=$rc $(echo "$out" | grep VIOLATION | head -2 | tr '\n' ' ')"
  echo "$line"; results="$results$line\n"
done
git -C /repo checkout -- .
git checkout -q -- evidence 2>/dev/null
/venv/bin/python - "$P" "$without" "$with" "$missing" "$results" <<'PY'
import json, sys
p, wo, wi, missing, results = sys.argv[1:6]
meta = {"property": p, "patch": "patch.diff", "demo": "demo.py",
        "demo_exit_without_change": int(wo), "demo_exit_with_change": int(wi),
        "suite_with_change_baseline_tests_not_passing": missing,
        "what_it_needs": open(f"/verif/seeded/{p}/NOTES.md").read()[:1500] if __import__('os').path.exists(f"/verif/seeded/{p}/NOTES.md") else "",
        "ran": ["demo.py with and without the change in the scratch worktree", "full pytest suite with the change (baseline comparison)",
                "git -C /repo apply patch.diff; ./check <id> --tier quick; git -C /repo checkout -- ."],
        "check_results": [l for l in results.split("\\n") if l]}
json.dump(meta, open(f"/verif/seeded/{p}/meta.json", "w"), indent=1)
PY
