#!/venv/bin/python
"""Regenerates MANIFEST.json from harness/registry.py and validates it against the schema."""
import json
import os
import sys

sys.path.insert(0, os.path.dirname(os.path.dirname(os.path.abspath(__file__))))
from harness import registry  # noqa: E402

ROOT = os.path.dirname(os.path.dirname(os.path.abspath(__file__)))
ALL = [f"C{i:02d}" for i in range(1, 21)]

man = {
    "version": 1,
    "setup_cmd": "cd lean && lake build ISnap isnap-driver",
    "hooks": {"guard": "INLINE_SNAPSHOT_VERIF", "enable": "no hooks: every observation point is external; fault injection and formatter replacement are done from conftest.py / stub packages written into throw-away projects",
              "baseline_off_cmd": "cd /repo && /venv/bin/python -m pytest -ra -q -p no:cacheprovider --timeout=900 --continue-on-collection-errors",
              "source_commits": [], "add_only": True},
    "engines": [{"name": n, "path": f"harness/engines/{n}.py", "serves_properties": sorted(p for p, s in registry.PROPS.items() if any(e[0] == n for e in s["engines"])),
                 "kind_free_text": registry.ENGINES.get(n, "")} for n in sorted({e[0] for s in registry.PROPS.values() for e in s["engines"]})],
    "checks": [],
    "notes": "Lean 4 proof of each property on a hand-written executable model (lean/ISnap), tied to /repo/src by a differential correspondence run on every check; see DESIGN.md.",
    "not_applicable": [],
}
for p in ALL:
    if p in registry.PROPS:
        s = registry.PROPS[p]
        man["checks"].append({
            "property_id": p,
            "quick_cmd": f"./check {p} --tier quick",
            "thorough_cmd": f"./check {p} --tier thorough",
            "evidence_file": f"/verif/evidence/{p}.json",
            "replay_cmd_template": f"./check {p} --replay {{path}}",
            "engine": "+".join(e[0] for e in s["engines"]) or "proofgate",
            "level_claimed": {"category": "proof", "text": s.get("level_text", ""), "design_ref": f"DESIGN.md §6 {p}"},
            "level_note": s.get("level_note", "Lean kernel + axioms propext/Classical.choice/Quot.sound; model tied to the source by sampling (correspondence), assumptions on external components validated per case"),
            "technique": s.get("technique", "Lean 4 theorems on an executable model + differential correspondence model/implementation + direct oracle"),
        })
    else:
        man["not_applicable"].append({"property_id": p, "reason": registry.NOT_YET.get(p, "check not built yet in this revision (model and engine pending, see DESIGN.md §12 order of work)")})

json.dump(man, open(os.path.join(ROOT, "MANIFEST.json"), "w"), indent=1)
try:
    import jsonschema
    jsonschema.validate(man, json.load(open("/root/.vp/MANIFEST.schema.json")))
    print("MANIFEST.json valid;", len(man["checks"]), "checks,", len(man["not_applicable"]), "not claimed")
except ImportError:
    print("MANIFEST.json written (jsonschema not importable here)")
