#!/bin/bash
# usage: tools/sweep.sh "<seeds>" [tier] [props...]   — run checks for several VERIF_SEED values on the current tree
cd "$(dirname "$0")/.."
seeds=$1; tier=${2:-quick}; shift; shift
props=${@:-C01 C02 C03 C04 C05 C06 C07 C08 C09 C10 C11 C12 C13 C14 C15 C16 C17 C18 C19 C20}
for s in $seeds; do
  for p in $props; do
    out=$(VERIF_SEED=$s ./check $p --tier $tier 2>&1); rc=$?
    echo "seed=$s $p rc=$rc $(echo "$out" | grep -c '^VIOLATION') violations; $(echo "$out" | tail -1 | cut -c1-160)"
    echo "$out" | grep '^VIOLATION' | head -3
  done
done
